import NanoVerif.Model.Csv
/-
The CSV reader (skipinitialspace) inverts `csvLine` on every non-empty row.
-/
namespace NanoVerif

def esc (f : List Char) : List Char := f.flatMap fun c => if c = '"' then ['"', '"'] else [c]

theorem quoteField_eq (f : List Char) : quoteField f = '"' :: (esc f ++ ['"']) := rfl

/-- a field the QUOTE_MINIMAL writer leaves bare and the skipinitialspace reader returns unchanged -/
def Plain (f : List Char) : Prop := needsQuote f = false ∧ startsWithSpace f = false

/-- `e` is what a writer may emit for field `f` -/
def Encodes (f e : List Char) : Prop := (e = f ∧ Plain f) ∨ e = quoteField f

theorem inField_mid (skip : Bool) (rest : List Char) (acc : List (List Char)) :
    ∀ (g cur : List Char), (∀ c ∈ g, c ≠ ',') →
    readRowAux skip .inField cur (g ++ ',' :: rest) acc = readRowAux skip .startField [] rest (acc ++ [cur ++ g])
  | [], cur, _ => by simp [readRowAux]
  | c :: g, cur, h => by
    have hc : c ≠ ',' := h c (by simp)
    have := inField_mid skip rest acc g (cur ++ [c]) (fun x hx => h x (by simp [hx]))
    simp [readRowAux, hc, this]

theorem inField_end (skip : Bool) (acc : List (List Char)) :
    ∀ (g cur : List Char), (∀ c ∈ g, c ≠ ',') →
    readRowAux skip .inField cur g acc = some (acc ++ [cur ++ g])
  | [], cur, _ => by simp [readRowAux]
  | c :: g, cur, h => by
    have hc : c ≠ ',' := h c (by simp)
    have := inField_end skip acc g (cur ++ [c]) (fun x hx => h x (by simp [hx]))
    simp [readRowAux, hc, this]

theorem inQuoted_run (skip : Bool) (tail : List Char) (acc : List (List Char)) :
    ∀ (f cur : List Char),
    readRowAux skip .inQuoted cur (esc f ++ '"' :: tail) acc = readRowAux skip .quoteInQuoted (cur ++ f) tail acc
  | [], cur => by simp [esc, readRowAux]
  | c :: f, cur => by
    have ih := inQuoted_run skip tail acc f (cur ++ [c])
    by_cases hc : c = '"'
    · subst hc
      simp only [esc, List.flatMap_cons, if_true, List.cons_append, List.nil_append] at ih ⊢
      simp [readRowAux, ih]
    · simp only [esc, List.flatMap_cons, if_neg hc, List.cons_append, List.nil_append] at ih ⊢
      simp [readRowAux, hc, ih]

theorem plain_no_comma {f : List Char} (h : Plain f) : ∀ c ∈ f, c ≠ ',' := by
  intro c hc hcc
  have := h.1
  simp only [needsQuote, List.any_eq_false] at this
  have := this c hc
  simp [hcc] at this

theorem plain_head {c : Char} {g : List Char} (h : Plain (c :: g)) : c ≠ ',' ∧ c ≠ '"' ∧ c ≠ ' ' := by
  obtain ⟨h1, h2⟩ := h
  simp only [needsQuote, List.any_cons, Bool.or_eq_false_iff] at h1
  have h3 := h1.1
  simp only [decide_eq_false_iff_not, not_or] at h3
  refine ⟨h3.1, h3.2.1, ?_⟩
  intro hs
  subst hs
  simp [startsWithSpace] at h2

/-- reading one encoded field followed by a comma -/
theorem read_field_mid {f e : List Char} (he : Encodes f e) (rest : List Char) (acc : List (List Char)) :
    readRowAux true .startField [] (e ++ ',' :: rest) acc = readRowAux true .startField [] rest (acc ++ [f]) := by
  rcases he with ⟨rfl, hp⟩ | rfl
  · cases e with
    | nil => simp [readRowAux]
    | cons c g =>
      obtain ⟨h1, h2, h3⟩ := plain_head hp
      have hg : ∀ x ∈ g, x ≠ ',' := fun x hx => plain_no_comma hp x (by simp [hx])
      have := inField_mid true rest acc g [c] hg
      simp [readRowAux, h1, h2, h3, this]
  · rw [quoteField_eq]
    have := inQuoted_run true (',' :: rest) acc f []
    simp only [List.cons_append, List.append_assoc, List.nil_append] at this ⊢
    simp [readRowAux, this]

/-- reading the last encoded field -/
theorem read_field_end {f e : List Char} (he : Encodes f e) (acc : List (List Char)) :
    readRowAux true .startField [] e acc = some (acc ++ [f]) := by
  rcases he with ⟨rfl, hp⟩ | rfl
  · cases e with
    | nil => simp [readRowAux]
    | cons c g =>
      obtain ⟨h1, h2, h3⟩ := plain_head hp
      have hg : ∀ x ∈ g, x ≠ ',' := fun x hx => plain_no_comma hp x (by simp [hx])
      have := inField_end true acc g [c] hg
      simp [readRowAux, h1, h2, h3, this]
  · rw [quoteField_eq]
    have := inQuoted_run true [] acc f []
    simp only [List.nil_append] at this ⊢
    simp [readRowAux, this]

inductive AllEnc : List (List Char) → List (List Char) → Prop
  | nil : AllEnc [] []
  | cons {f e fs es} : Encodes f e → AllEnc fs es → AllEnc (f :: fs) (e :: es)

/-- a row of encoded fields reads back as the fields -/
theorem read_joined : ∀ (fs es : List (List Char)) (acc : List (List Char)), fs ≠ [] →
    AllEnc fs es → readRowAux true .startField [] (joinComma es) acc = some (acc ++ fs)
  | [], _, _, h, _ => absurd rfl h
  | [f], es, acc, _, h => by
    cases h with
    | cons he hr =>
      cases hr
      simpa [joinComma] using read_field_end he acc
  | f :: f2 :: fs, es, acc, _, h => by
    cases h with
    | cons he hr =>
      cases hr with
      | cons he2 hr2 =>
        rename_i e e2 es2
        have ih := read_joined (f2 :: fs) (e2 :: es2) (acc ++ [f]) (by simp) (AllEnc.cons he2 hr2)
        simp only [joinComma]
        rw [read_field_mid he, ih]
        simp

theorem joinComma_ne_nil : ∀ (es : List (List Char)), 2 ≤ es.length → joinComma es ≠ []
  | [], h => by simp at h
  | [_], h => by simp at h
  | e :: e2 :: es, _ => by simp [joinComma]

theorem forall2_quote (fs : List (List Char)) : AllEnc fs (fs.map quoteField) := by
  induction fs with
  | nil => exact .nil
  | cons f fs ih => exact .cons (Or.inr rfl) ih

theorem forall2_minimal (fs : List (List Char)) (h : fs.any startsWithSpace = false) :
    AllEnc fs (fs.map writeField) := by
  induction fs with
  | nil => exact .nil
  | cons f fs ih =>
    simp only [List.any_cons, Bool.or_eq_false_iff] at h
    refine .cons ?_ (ih h.2)
    unfold writeField
    split
    · exact Or.inr rfl
    · rename_i hn
      exact Or.inl ⟨rfl, by simpa using hn, h.1⟩

theorem quoteField_ne_nil (f : List Char) : quoteField f ≠ [] := by simp [quoteField]

theorem writeField_ne_nil {f : List Char} (h : f ≠ []) : writeField f ≠ [] := by
  unfold writeField
  split
  · exact quoteField_ne_nil f
  · exact h

/-- **CSV round trip**: for every non-empty row, `csv.reader(skipinitialspace=True)` applied to
`GlyphMapping.csv_line`'s output returns the row (file paths, glyph name, hex codepoints) unchanged. -/
theorem csv_roundtrip (fields : List (List Char)) (hne : fields ≠ []) :
    readRow true (csvLine fields) = some fields := by
  unfold csvLine
  split
  · -- QUOTE_ALL
    have hline : writeRowAll fields ≠ [] := by
      unfold writeRowAll
      match fields, hne with
      | [f], _ => simpa [joinComma] using quoteField_ne_nil f
      | f :: f2 :: fs, _ => exact joinComma_ne_nil _ (by simp)
    unfold readRow
    rw [if_neg hline]
    simpa [writeRowAll] using read_joined fields (fields.map quoteField) [] hne (forall2_quote fields)
  · rename_i hsp
    have hsp' : fields.any startsWithSpace = false := by simpa using hsp
    match fields, hne, hsp' with
    | [[]], _, _ => decide
    | [c :: g], _, hs =>
      have hw : writeRow [c :: g] = writeField (c :: g) := by simp [writeRow, joinComma]
      unfold readRow
      rw [hw, if_neg (writeField_ne_nil (by simp))]
      have := read_joined [c :: g] [writeField (c :: g)] [] (by simp) (forall2_minimal [c :: g] hs)
      simpa [joinComma] using this
    | f :: f2 :: fs, _, hs =>
      have hw : writeRow (f :: f2 :: fs) = joinComma ((f :: f2 :: fs).map writeField) := by
        cases f <;> simp [writeRow]
      unfold readRow
      rw [hw, if_neg (joinComma_ne_nil _ (by simp))]
      simpa using read_joined (f :: f2 :: fs) _ [] (by simp) (forall2_minimal _ hs)

end NanoVerif
