import NanoVerif.Model.Shape
/-
Every source's own sequence shapes to its own ligature glyph — also when one sequence is a prefix of
another — as long as the table lists longer ligatures first and no two rules have the same sequence.
-/
namespace NanoVerif

theorem firstMatch_mem : ∀ (rules : List LigRule) (input : List Nat) (r : LigRule),
    firstMatch rules input = some r → r ∈ rules ∧ r.seq ≠ [] ∧ r.seq.isPrefixOf input = true
  | [], _, _, h => by simp [firstMatch] at h
  | x :: xs, input, r, h => by
    simp only [firstMatch] at h
    split at h
    · rename_i hx
      cases h
      exact ⟨by simp, hx.1, hx.2⟩
    · obtain ⟨h1, h2, h3⟩ := firstMatch_mem xs input r h
      exact ⟨List.mem_cons_of_mem _ h1, h2, h3⟩

/-- a rule that matches is found, and what is found comes no later in the table -/
theorem firstMatch_first : ∀ (rules : List LigRule) (input : List Nat) (r : LigRule),
    r ∈ rules → r.seq ≠ [] → r.seq.isPrefixOf input = true →
    ∃ r', firstMatch rules input = some r' ∧ (r' = r ∨ ∃ pre post, rules = pre ++ r' :: post ∧ r ∈ post)
  | [], _, _, h, _, _ => by simp at h
  | x :: xs, input, r, hmem, hne, hpre => by
    simp only [firstMatch]
    by_cases hx : x.seq ≠ [] ∧ x.seq.isPrefixOf input = true
    · rw [if_pos hx]
      refine ⟨x, rfl, ?_⟩
      rcases List.mem_cons.mp hmem with rfl | hm
      · exact Or.inl rfl
      · exact Or.inr ⟨[], xs, rfl, hm⟩
    · rw [if_neg hx]
      rcases List.mem_cons.mp hmem with rfl | hm
      · exact absurd ⟨hne, hpre⟩ hx
      · obtain ⟨r', h1, h2⟩ := firstMatch_first xs input r hm hne hpre
        refine ⟨r', h1, ?_⟩
        rcases h2 with rfl | ⟨pre, post, rfl, hp⟩
        · exact Or.inl rfl
        · exact Or.inr ⟨x :: pre, post, rfl, hp⟩

/-- longer sequences first -/
def LongestFirst : List LigRule → Prop
  | [] => True
  | r :: rs => (∀ r' ∈ rs, r'.seq.length ≤ r.seq.length) ∧ LongestFirst rs

theorem longestFirst_split : ∀ (pre : List LigRule) (x : LigRule) (post : List LigRule),
    LongestFirst (pre ++ x :: post) → ∀ r ∈ post, r.seq.length ≤ x.seq.length
  | [], _, _, h => h.1
  | _ :: pre, x, post, h => longestFirst_split pre x post h.2

theorem prefix_len_eq {a b : List Nat} (h : a.isPrefixOf b = true) (hl : b.length ≤ a.length) : a = b := by
  have hp : a <+: b := List.isPrefixOf_iff_prefix.mp h
  exact hp.eq_of_length_le hl

/-- **own sequence → own glyph**: the input that is exactly the sequence of rule `r` shapes to `[r.target]` -/
theorem shape_own_sequence (rules : List LigRule) (r : LigRule) (hr : r ∈ rules) (hne : r.seq ≠ [])
    (hsorted : LongestFirst rules) (hdistinct : ∀ a ∈ rules, ∀ b ∈ rules, a.seq = b.seq → a = b) (fuel : Nat) :
    shapeLig rules (fuel + 1) r.seq = [r.target] := by
  cases hs : r.seq with
  | nil => exact absurd hs hne
  | cons g rest =>
    have hpre : r.seq.isPrefixOf (g :: rest) = true := by rw [hs]; simp
    obtain ⟨r', hfm, hcase⟩ := firstMatch_first rules (g :: rest) r hr hne hpre
    obtain ⟨hr'mem, _, hr'pre⟩ := firstMatch_mem rules (g :: rest) r' hfm
    have heq : r' = r := by
      rcases hcase with h | ⟨pre, post, hsplit, hpost⟩
      · exact h
      · have hlen : r.seq.length ≤ r'.seq.length := by
          rw [hsplit] at hsorted
          exact longestFirst_split pre r' post hsorted r hpost
        have : r'.seq = g :: rest := prefix_len_eq hr'pre (by rw [← hs]; exact hlen)
        exact hdistinct r' hr'mem r hr (by rw [this, hs])
    simp only [shapeLig, hfm, heq, hs, List.drop_length]
    cases fuel <;> simp [shapeLig]

end NanoVerif
