import NanoVerif.Generated.TrColorGlyph
import NanoVerif.Model.ViewBox
import NanoVerif.Proofs.PyRtLemmas
/-
Tie T: the placement functions of color_glyph.py as translated from the current source equal the models
the C01/C02 theorems (`fontSpace_spec`, `otsvgSpace_spec`, `advance_rule`) are about.
-/
namespace NanoVerif.TrProofs
open NanoVerif

def convV {α} : Except VErr α → Py.M α
  | .ok a => .ok a
  | .error .assertFail => .error .assertFail
  | .error .zeroDiv => .error .zeroDiv

theorem scale_viewbox_eq (vb : Rect) (a d w : Q) :
    Tr.scale_viewbox_to_font_metrics vb a d w = convV (scaleViewboxToFontMetrics vb a d w) := by
  unfold Tr.scale_viewbox_to_font_metrics scaleViewboxToFontMetrics
  by_cases hd : d ≤ 0
  · by_cases hh : vb.h = 0
    · simp [Py.assert, Py.div, hd, hh, convV, bind, Except.bind]
    · simp [Py.assert, Py.div, hd, hh, convV, bind, Except.bind, pure, Except.pure]
  · simp [Py.assert, hd, convV, bind, Except.bind]

theorem map_font_space_eq (vb : Rect) (a d w : Q) (u : Aff) :
    Tr.map_viewbox_to_font_space vb a d w u = convV (mapViewboxToFontSpace vb a d w u) := by
  unfold Tr.map_viewbox_to_font_space mapViewboxToFontSpace
  rw [scale_viewbox_eq]
  cases h : scaleViewboxToFontMetrics vb a d w with
  | error e => cases e <;> simp [convV, bind, Except.bind]
  | ok s => simp [convV, bind, Except.bind, pure, Except.pure]

theorem map_otsvg_space_eq (vb : Rect) (a d w : Q) (u : Aff) :
    Tr.map_viewbox_to_otsvg_space vb a d w u = convV (mapViewboxToOtsvgSpace vb a d w u) := by
  unfold Tr.map_viewbox_to_otsvg_space mapViewboxToOtsvgSpace
  rw [scale_viewbox_eq]
  cases h : scaleViewboxToFontMetrics vb a d w with
  | error e => cases e <;> simp [convV, bind, Except.bind]
  | ok s => simp [convV, bind, Except.bind, pure, Except.pure]

/-- `_advance_width` on an integer-valued configuration -/
theorem advance_width_eq (vb : Rect) (asc desc width : Int) (c : Py.Config)
    (h1 : c.ascender = asc) (h2 : c.descender = desc) (h3 : c.width = width) :
    Tr.advance_width vb c = (convV (advanceWidth vb asc desc width)).map (fun (i : Int) => (i : Q)) := by
  unfold Tr.advance_width advanceWidth
  by_cases hh : vb.h = 0
  · simp [Py.div, hh, convV, bind, Except.bind, Except.map]
  · simp only [Py.div, hh, if_false, convV, bind, Except.bind, pure, Except.pure, Except.map, Py.round, h1, h2, h3]
    rw [qmax_cast]
    push_cast
    rfl

end NanoVerif.TrProofs
