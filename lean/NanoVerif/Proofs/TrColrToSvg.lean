import NanoVerif.Generated.TrColrToSvg
import NanoVerif.Proofs.TrColorGlyph
import NanoVerif.Props.C01
/-
Tie T: `colr_to_svg.map_font_space_to_viewbox` as translated from the current source is the inverse (as `Affine2D.inverse` computes it) of the C01
placement built from the glyph region, and therefore undoes that placement point by point.
-/
namespace NanoVerif.TrProofs
open NanoVerif Gen

/-- the model: region `(x, y, w, h)` with `y ≤ 0` ⇒ ascender `−y`, descender `−(h + y)`, width `w` -/
def mapFontSpaceToViewbox (vb region : Rect) : Except VErr Aff :=
  if ¬ region.y ≤ 0 then .error .assertFail
  else if ¬ -(region.h - -region.y) ≤ 0 then .error .assertFail
  else match mapViewboxToFontSpace vb (-region.y) (-(region.h - -region.y)) region.w Aff.id with
    | .error e => .error e
    | .ok t => .ok (t.inverseEps FLOAT_EPSILON)

theorem map_font_space_to_viewbox_eq (vb region : Rect) :
    Tr.map_font_space_to_viewbox vb region = convV (mapFontSpaceToViewbox vb region) := by
  unfold Tr.map_font_space_to_viewbox mapFontSpaceToViewbox
  simp only [map_font_space_eq]
  by_cases h1 : region.y ≤ 0
  · by_cases h2 : -(region.h - -region.y) ≤ 0
    · cases h : mapViewboxToFontSpace vb (-region.y) (-(region.h - -region.y)) region.w Aff.id with
      | error e => cases e <;> simp only [Py.assert, h1, h2, decide_true, not_true_eq_false, if_false, if_true, convV, bind, Except.bind]
      | ok t => simp only [Py.assert, h1, h2, decide_true, not_true_eq_false, if_false, if_true, convV, bind, Except.bind, pure, Except.pure]
    · simp only [Py.assert, h1, h2, decide_true, decide_false, not_true_eq_false, not_false_eq_true, if_false, if_true, convV, bind, Except.bind, Bool.false_eq_true]
  · simp only [Py.assert, h1, decide_false, not_false_eq_true, if_true, if_false, convV, bind, Except.bind, Bool.false_eq_true]

/-- **C13.1 on the translated function**: whatever `map_font_space_to_viewbox` returns maps the font-space position of every viewBox point
(C01 placement with ascender `−region.y`, descender `−(region.h + region.y)`, width `region.w`) back to that point -/
theorem map_font_space_to_viewbox_inverts (vb region : Rect) (V : Aff) (hh : vb.h ≠ 0)
    (h : Tr.map_font_space_to_viewbox vb region = .ok V)
    (hinv : ∀ t, mapViewboxToFontSpace vb (-region.y) (-(region.h - -region.y)) region.w Aff.id = .ok t → C06.Invertible t) (p : Pt) :
    V.app (specPlacement vb (-region.y) (-(region.h - -region.y)) region.w p) = p := by
  rw [map_font_space_to_viewbox_eq] at h
  unfold mapFontSpaceToViewbox at h
  by_cases h1 : region.y ≤ 0
  · by_cases h2 : -(region.h - -region.y) ≤ 0
    · simp only [h1, h2, not_true_eq_false, if_false] at h
      cases ht : mapViewboxToFontSpace vb (-region.y) (-(region.h - -region.y)) region.w Aff.id with
      | error e => rw [ht] at h; cases e <;> simp [convV] at h
      | ok t =>
        rw [ht] at h
        simp only [convV, Except.ok.injEq] at h
        subst h
        obtain ⟨t', e1, e2⟩ := C01.fontSpace_spec vb (-region.y) (-(region.h - -region.y)) region.w Aff.id h2 hh
        rw [ht] at e1
        cases e1
        have := e2 p
        simp only [Aff.app, Aff.id, one_mul, zero_mul, add_zero, zero_add] at this
        have e : specPlacement vb (-region.y) (-(region.h - -region.y)) region.w p = t.app p := by
          rw [Aff.app]; exact this.symm
        rw [e]
        exact C06.inv_app (hinv t ht) p
    · simp only [h1, h2, not_true_eq_false, not_false_eq_true, if_true, if_false, convV] at h
      cases h
  · simp only [h1, not_false_eq_true, if_true, convV] at h
    cases h

end NanoVerif.TrProofs
