import NanoVerif.Model.VarModel
import Mathlib.Tactic.Ring
import Mathlib.Tactic.Linarith
import Mathlib.Algebra.Order.Field.Rat
import Mathlib.Algebra.Order.Field.Basic
/-
Lemmas about the variation model (Model/VarModel.lean): forward substitution gives every master back
(any number of masters, any scalar table that is unit lower-triangular), the tent function, and the
one-axis support construction — earlier masters are pushed onto or outside the boundary of every later
support, which is exactly the triangular shape the first lemma needs.
-/
namespace NanoVerif.Var

/-! ### forward substitution -/

theorem dotFrom_append (w : Nat → Q) (k : Nat) (a b : List Q) :
    dotFrom w k (a ++ b) = dotFrom w k a + dotFrom w (k + a.length) b := by
  induction a generalizing k with
  | nil => simp [dotFrom]
  | cons x xs ih =>
    simp only [List.cons_append, dotFrom, ih, List.length_cons]
    rw [show k + 1 + xs.length = k + (xs.length + 1) by omega]
    ring

theorem dotFrom_zero (w : Nat → Q) (k : Nat) (l : List Q) (h : ∀ j, k ≤ j → j < k + l.length → w j = 0) :
    dotFrom w k l = 0 := by
  induction l generalizing k with
  | nil => rfl
  | cons x xs ih =>
    simp only [dotFrom, h k (Nat.le_refl _) (by simp),
      ih (k + 1) (fun j hj hj2 => h j (by omega) (by simp only [List.length_cons]; omega))]
    ring

theorem deltasGo_prefix (rnd : Q → Q) (S : Nat → Nat → Q) (ms out : List Q) :
    ∃ R, deltasGo rnd S ms out = out ++ R := by
  induction ms generalizing out with
  | nil => exact ⟨[], by simp [deltasGo]⟩
  | cons x xs ih =>
    obtain ⟨R, hR⟩ := ih (out ++ [rnd (x - dotFrom (fun j => S j out.length) 0 out)])
    exact ⟨rnd (x - dotFrom (fun j => S j out.length) 0 out) :: R, by simp only [deltasGo, hR, List.append_assoc, List.singleton_append]⟩

theorem deltasGo_length (rnd : Q → Q) (S : Nat → Nat → Q) (ms out : List Q) :
    (deltasGo rnd S ms out).length = out.length + ms.length := by
  induction ms generalizing out with
  | nil => simp [deltasGo]
  | cons x xs ih => simp only [deltasGo, ih, List.length_append, List.length_cons, List.length_nil]; omega

/-- the delta stored for master `k` is that master minus what the deltas before it already give there. -/
theorem deltasGo_split (rnd : Q → Q) (S : Nat → Nat → Q) (ms out : List Q) (k : Nat) (m : Q)
    (hk : ms[k]? = some m) :
    ∃ P R, deltasGo rnd S ms out = P ++ rnd (m - dotFrom (fun j => S j P.length) 0 P) :: R
      ∧ P.length = out.length + k := by
  induction ms generalizing out k with
  | nil => simp at hk
  | cons x xs ih =>
    cases k with
    | zero =>
      simp only [List.getElem?_cons_zero, Option.some.injEq] at hk
      subst hk
      obtain ⟨R, hR⟩ := deltasGo_prefix rnd S xs (out ++ [rnd (x - dotFrom (fun j => S j out.length) 0 out)])
      exact ⟨out, R, by simp only [deltasGo, hR, List.append_assoc, List.singleton_append], by simp⟩
    | succ k =>
      simp only [List.getElem?_cons_succ] at hk
      obtain ⟨P, R, h, hl⟩ := ih (out ++ [rnd (x - dotFrom (fun j => S j out.length) 0 out)]) k hk
      refine ⟨P, R, by simpa only [deltasGo] using h, ?_⟩
      simp only [List.length_append, List.length_cons, List.length_nil] at hl
      omega

/-- **forward substitution reproduces the masters**, up to the rounding of one delta: for any number of
masters and any scalar table with `S i i = 1` and `S j i = 0` for the masters `j` after `i`. -/
theorem deltas_reproduce_round (rnd : Q → Q) (S : Nat → Nat → Q) (ms : List Q) (i : Nat) (m : Q)
    (hi : ms[i]? = some m) (diag : S i i = 1) (upper : ∀ j, i < j → j < ms.length → S j i = 0) :
    ∃ y, interpolate (fun j => S j i) (getDeltas rnd S ms) = y + rnd (m - y) := by
  obtain ⟨P, R, h, hl⟩ := deltasGo_split rnd S ms [] i m hi
  simp only [List.length_nil, Nat.zero_add] at hl
  have hlen := deltasGo_length rnd S ms []
  rw [h] at hlen
  simp only [List.length_append, List.length_cons, List.length_nil, Nat.zero_add, hl] at hlen
  refine ⟨dotFrom (fun j => S j i) 0 P, ?_⟩
  unfold interpolate getDeltas
  rw [h, dotFrom_append, hl]
  simp only [dotFrom, Nat.zero_add, diag]
  rw [dotFrom_zero (fun j => S j i) (i + 1) R (fun j hj hj2 => upper j (by omega) (by omega))]
  ring

theorem deltas_reproduce (S : Nat → Nat → Q) (ms : List Q) (i : Nat) (m : Q)
    (hi : ms[i]? = some m) (diag : S i i = 1) (upper : ∀ j, i < j → j < ms.length → S j i = 0) :
    interpolate (fun j => S j i) (getDeltas id S ms) = m := by
  obtain ⟨y, hy⟩ := deltas_reproduce_round id S ms i m hi diag upper
  rw [hy]; simp

/-! ### the tent function -/

theorem tent_peak (r : Region) : tent r r.peak = 1 := by
  unfold tent; split_ifs with a b c d <;> first | rfl | exact absurd rfl d

/-- a well-formed region of a master that moves on the axis -/
def WF (r : Region) : Prop :=
  r.peak ≠ 0 ∧ r.lower ≤ r.peak ∧ r.peak ≤ r.upper ∧ (0 ≤ r.lower ∨ r.upper ≤ 0)

/-- `p` lies on or outside the boundary of the region -/
def Excl (r : Region) (p : Q) : Prop := p ≤ r.lower ∨ r.upper ≤ p

theorem tent_outside (r : Region) (v : Q) (h : WF r) (hv : v ≠ r.peak) (ho : Excl r v) : tent r v = 0 := by
  obtain ⟨hp, h1, h2, h3⟩ := h
  unfold tent
  rw [if_neg hp, if_neg (by intro h; rcases h with h | h <;> linarith),
    if_neg (by intro h; rcases h3 with h3 | h3 <;> linarith [h.1, h.2]), if_neg hv, if_pos (show v ≤ r.lower ∨ r.upper ≤ v from ho)]

theorem tent_absent (r : Region) (v : Q) (h : r.peak = 0) : tent r v = 1 := by
  unfold tent; rw [if_pos h]

/-! ### one axis: the supports -/

theorem initRegion_wf (v : Q) (h0 : v ≠ 0) (hlo : -1 ≤ v) (hhi : v ≤ 1) : WF (initRegion v) := by
  unfold initRegion WF
  split
  · next h => exact ⟨h0, le_of_lt h, hhi, Or.inl (le_refl _)⟩
  · next h =>
    have : v ≤ 0 := not_lt.mp h
    exact ⟨h0, hlo, this, Or.inr (le_refl _)⟩

theorem initRegion_peak (v : Q) : (initRegion v).peak = v := by
  unfold initRegion; split <;> rfl

theorem splitBy1_peak (r : Region) (p : Q) : (splitBy1 r p).peak = r.peak := by
  unfold splitBy1; split_ifs <;> rfl

theorem splitBy1_shrinks (r : Region) (p : Q) :
    r.lower ≤ (splitBy1 r p).lower ∧ (splitBy1 r p).upper ≤ r.upper := by
  unfold splitBy1
  split_ifs with h1 h2 h3 h4
  · exact ⟨le_refl _, le_refl _⟩
  · refine ⟨?_, le_refl _⟩
    rcases h2 with h2 | h2
    · exact absurd (h2 ▸ h3) (lt_irrefl _)
    · exact le_of_lt h2.1
  · refine ⟨le_refl _, ?_⟩
    rcases h2 with h2 | h2
    · exact absurd (h2 ▸ h4) (lt_irrefl _)
    · exact le_of_lt h2.2
  · exact ⟨le_refl _, le_refl _⟩
  · exact ⟨le_refl _, le_refl _⟩

theorem splitBy1_wf (r : Region) (p : Q) (h : WF r) : WF (splitBy1 r p) := by
  obtain ⟨hp, h1, h2, h3⟩ := h
  unfold splitBy1 WF
  split_ifs with c1 c2 c3 c4
  · exact ⟨hp, h1, h2, h3⟩
  · refine ⟨hp, le_of_lt c3, h2, ?_⟩
    rcases c2 with c2 | c2
    · exact absurd (c2 ▸ c3) (lt_irrefl _)
    · rcases h3 with h3 | h3
      · exact Or.inl (le_trans h3 (le_of_lt c2.1))
      · exact Or.inr h3
  · refine ⟨hp, h1, le_of_lt c4, ?_⟩
    rcases c2 with c2 | c2
    · exact absurd (c2 ▸ c4) (lt_irrefl _)
    · rcases h3 with h3 | h3
      · exact Or.inl h3
      · exact Or.inr (le_trans (le_of_lt c2.2) h3)
  · exact ⟨hp, h1, h2, h3⟩
  · exact ⟨hp, h1, h2, h3⟩

/-- after the split for `p`, `p` is on or outside the boundary (unless it is the peak itself). -/
theorem splitBy1_excl (r : Region) (p : Q) (h : WF r) (hne : p ≠ r.peak) : Excl (splitBy1 r p) p := by
  obtain ⟨hp, h1, h2, h3⟩ := h
  unfold splitBy1 Excl
  split_ifs with c1 c2 c3 c4
  · rcases c1 with c1 | c1
    · subst c1; rcases h3 with h3 | h3
      · exact Or.inl h3
      · exact Or.inr h3
    · exact absurd c1 hp
  · exact Or.inl (le_refl _)
  · exact Or.inr (le_refl _)
  · exact absurd (le_antisymm (not_lt.mp c4) (not_lt.mp c3)) hne
  · have : ¬ (r.lower < p ∧ p < r.upper) := fun hh => c2 (Or.inr hh)
    by_cases hl : r.lower < p
    · exact Or.inr (not_lt.mp (fun hu => this ⟨hl, hu⟩))
    · exact Or.inl (not_lt.mp hl)

theorem excl_mono (r r' : Region) (p : Q) (hl : r.lower ≤ r'.lower) (hu : r'.upper ≤ r.upper)
    (h : Excl r p) : Excl r' p := by
  rcases h with h | h
  · exact Or.inl (le_trans h hl)
  · exact Or.inr (le_trans hu h)

theorem fold_wf (r : Region) (ps : List Q) (h : WF r) :
    WF (ps.foldl splitBy1 r) ∧ (ps.foldl splitBy1 r).peak = r.peak
      ∧ r.lower ≤ (ps.foldl splitBy1 r).lower ∧ (ps.foldl splitBy1 r).upper ≤ r.upper := by
  induction ps generalizing r with
  | nil => exact ⟨h, rfl, le_refl _, le_refl _⟩
  | cons p ps ih =>
    obtain ⟨a, b, c, d⟩ := ih (splitBy1 r p) (splitBy1_wf r p h)
    have s := splitBy1_shrinks r p
    exact ⟨a, by rw [List.foldl_cons, b, splitBy1_peak], le_trans s.1 c, le_trans d s.2⟩

theorem fold_excl (r : Region) (ps : List Q) (h : WF r) (p : Q) (hp : p ∈ ps) (hne : p ≠ r.peak) :
    Excl (ps.foldl splitBy1 r) p := by
  induction ps generalizing r with
  | nil => cases hp
  | cons q qs ih =>
    simp only [List.foldl_cons]
    rcases List.mem_cons.mp hp with rfl | hq
    · have e := splitBy1_excl r p h hne
      obtain ⟨_, _, c, d⟩ := fold_wf (splitBy1 r p) qs (splitBy1_wf r p h)
      exact excl_mono _ _ p c d e
    · exact ih (splitBy1 r q) (splitBy1_wf r q h) hq (by rw [splitBy1_peak]; exact hne)

/-- every earlier master is switched off in the support of a later one. -/
theorem support1_excludes (prevs : List Q) (v p : Q) (h0 : v ≠ 0) (hlo : -1 ≤ v) (hhi : v ≤ 1)
    (hp : p ∈ prevs) (hne : p ≠ v) : tent (support1 prevs v) p = 0 := by
  have wf := initRegion_wf v h0 hlo hhi
  obtain ⟨a, b, _, _⟩ := fold_wf (initRegion v) prevs wf
  unfold support1
  refine tent_outside _ _ a ?_ (fold_excl _ _ wf p hp (by rw [initRegion_peak]; exact hne))
  rw [b, initRegion_peak]; exact hne

theorem support1_peak (prevs : List Q) (v : Q) : (support1 prevs v).peak = v := by
  unfold support1
  have : ∀ (ps : List Q) (r : Region), (ps.foldl splitBy1 r).peak = r.peak := by
    intro ps
    induction ps with
    | nil => intro r; rfl
    | cons q qs ih2 => intro r; rw [List.foldl_cons, ih2, splitBy1_peak]
  rw [this, initRegion_peak]

theorem support1_own (prevs : List Q) (v : Q) : tent (support1 prevs v) v = 1 := by
  have := tent_peak (support1 prevs v)
  rwa [support1_peak] at this

/-! ### `normalizeValue` -/

theorem normalize_default (lo d hi : Q) (h : lo ≤ d ∧ d ≤ hi) : normalizeValue d lo d hi = some 0 := by
  unfold normalizeValue
  rw [if_neg (by simpa using h)]
  have : qmax (qmin d hi) lo = d := by
    unfold qmax qmin
    rw [if_pos h.2]
    split
    · next c => exact le_antisymm h.1 c
    · rfl
  simp only [this, true_or, if_true]

theorem normalize_min (lo d hi : Q) (h : lo < d ∧ d ≤ hi) : normalizeValue lo lo d hi = some (-1) := by
  unfold normalizeValue
  rw [if_neg (by simpa using ⟨le_of_lt h.1, h.2⟩)]
  have hlh : lo ≤ hi := le_trans (le_of_lt h.1) h.2
  have : qmax (qmin lo hi) lo = lo := by
    unfold qmax qmin
    rw [if_pos hlh]; simp
  simp only [this]
  rw [if_neg (by intro c; rcases c with c | c <;> linarith), if_pos (Or.inl ⟨h.1, ne_of_lt h.1⟩)]
  congr 1
  have : d - lo ≠ 0 := by intro c; linarith
  rw [show lo - d = -(d - lo) by ring, neg_div, div_self this]

theorem normalize_max (lo d hi : Q) (h : lo ≤ d ∧ d < hi) : normalizeValue hi lo d hi = some 1 := by
  unfold normalizeValue
  rw [if_neg (by simpa using ⟨h.1, le_of_lt h.2⟩)]
  have hlh : lo ≤ hi := le_trans h.1 (le_of_lt h.2)
  have : qmax (qmin hi hi) lo = hi := by
    unfold qmax qmin
    rw [if_pos (le_refl _), if_neg]
    intro c
    linarith
  simp only [this]
  rw [if_neg (by intro c; rcases c with c | c <;> linarith),
    if_neg (by intro c; rcases c with c | c <;> [linarith [c.1]; linarith [c.2]])]
  congr 1
  have : hi - d ≠ 0 := by intro c; linarith
  exact div_self this

/-! ### the dense model on one axis is the one-axis construction -/

theorem candidate_ratio_pos (r : Region) (p : Q) (q : Q) (r' : Region) (h : candidate r p = some (q, r'))
    (hrel : p = r.peak ∨ (r.lower < p ∧ p < r.upper)) : 0 < q := by
  unfold candidate at h
  split_ifs at h with a b c
  · simp only [Option.some.injEq, Prod.mk.injEq] at h
    rcases hrel with e | e
    · exact absurd (e ▸ b) (lt_irrefl _)
    · rw [← h.1]; exact div_pos_of_neg_of_neg (by linarith) (by linarith [e.1])
  · simp only [Option.some.injEq, Prod.mk.injEq] at h
    rcases hrel with e | e
    · exact absurd (e ▸ c) (lt_irrefl _)
    · rw [← h.1]; exact div_pos (by linarith) (by linarith [e.2])

theorem splitBy_single (v p : Q) (r : Region) (hr : r.peak = v) :
    splitBy [v] [r] [p] = [splitBy1 r p] := by
  unfold splitBy splitBy1 axesOf relevant
  by_cases hp : p = 0
  · subst hp
    by_cases hv : v = 0
    · simp [hv, hr, candidate, bestRatio]
    · simp [hv]
  · by_cases hv : v = 0
    · simp [hv, hp, hr]
    · have hpk : ¬ r.peak = 0 := hr ▸ hv
      simp only [List.map_cons, List.map_nil, ne_eq, hp, not_false_eq_true, decide_true, hv, not_true_eq_false,
        if_false, List.zip_cons_cons, List.zip_nil_right, List.all_cons, List.all_nil, Bool.and_true, hpk, decide_false,
        Bool.false_or, false_or, Bool.not_eq_eq_eq_not, Bool.not_true, Bool.or_eq_false_iff, decide_eq_false_iff_not,
        Bool.and_eq_false_imp, decide_eq_true_eq, List.zipWith_cons_cons, List.zipWith_nil_right]
      by_cases hrel : p = r.peak ∨ (r.lower < p ∧ p < r.upper)
      · have : ¬ (¬p = r.peak ∧ (r.lower < p → ¬p < r.upper)) := by
          intro ⟨a, b⟩
          rcases hrel with e | e
          · exact a e
          · exact b e.1 e.2
        rw [if_neg this, if_pos hrel]
        cases hc : candidate r p with
        | none =>
          unfold candidate at hc
          split_ifs at hc with a b
          simp [a, b]
        | some qr =>
          obtain ⟨q, r'⟩ := qr
          have hq := candidate_ratio_pos r p q r' hc hrel
          have hb : q = bestRatio [some (q, r')] := by
            simp only [bestRatio, List.foldl_cons, List.foldl_nil, qmax]
            rw [if_pos (by linarith)]
          simp only [← hb, if_true]
          unfold candidate at hc
          split_ifs at hc with a b
          · simp only [Option.some.injEq, Prod.mk.injEq] at hc; rw [← hc.2, if_pos a]
          · simp only [Option.some.injEq, Prod.mk.injEq] at hc; rw [← hc.2, if_neg a, if_pos b]
      · have : (¬p = r.peak ∧ (r.lower < p → ¬p < r.upper)) := by
          constructor
          · exact fun e => hrel (Or.inl e)
          · exact fun a b => hrel (Or.inr ⟨a, b⟩)
        rw [if_pos this, if_neg hrel]

theorem supportOf_single (prevs : List Q) (v : Q) :
    supportOf (prevs.map fun p => [p]) [v] = [support1 prevs v] := by
  unfold supportOf support1 initSupport
  simp only [List.map_cons, List.map_nil]
  have : ∀ (ps : List Q) (r : Region), r.peak = v →
      (ps.map fun p => [p]).foldl (splitBy [v]) [r] = [ps.foldl splitBy1 r] := by
    intro ps
    induction ps with
    | nil => intro r _; rfl
    | cons q qs ih =>
      intro r hr
      simp only [List.map_cons, List.foldl_cons, splitBy_single v q r hr]
      exact ih _ (by rw [splitBy1_peak]; exact hr)
  exact this prevs _ (initRegion_peak v)

theorem supportsGo_single (prevs vs : List Q) :
    supportsGo (prevs.map fun p => [p]) (vs.map fun p => [p]) = (supportsGo1 prevs vs).map fun r => [r] := by
  induction vs generalizing prevs with
  | nil => rfl
  | cons v vs ih =>
    simp only [List.map_cons, supportsGo, supportsGo1, supportOf_single]
    have := ih (prevs ++ [v])
    simp only [List.map_append, List.map_cons, List.map_nil] at this
    rw [this]

theorem supportsGo1_getD (prevs vs : List Q) (j : Nat) (hj : j < vs.length) :
    (supportsGo1 prevs vs)[j]? = some (support1 (prevs ++ vs.take j) (vs.getD j 0)) := by
  induction vs generalizing prevs j with
  | nil => simp at hj
  | cons v vs ih =>
    cases j with
    | zero => simp [supportsGo1]
    | succ j =>
      simp only [supportsGo1, List.getElem?_cons_succ, List.take_succ_cons, List.getD_cons_succ]
      rw [ih (prevs ++ [v]) j (by simpa using hj)]
      simp

/-! ### `normalizeValue` on the declared range: into [-1, 1], sign = side of the default, injective -/

theorem clamp_id (v lo hi : Q) (h1 : lo ≤ v) (h2 : v ≤ hi) : qmax (qmin v hi) lo = v := by
  unfold qmax qmin
  rw [if_pos h2]
  split
  · next c => exact le_antisymm h1 c
  · rfl

/-- on [lo, hi]: the normalised value, by cases -/
theorem normalize_cases (v lo d hi : Q) (h : lo ≤ d ∧ d ≤ hi) (h1 : lo ≤ v) (h2 : v ≤ hi) :
    (v < d ∧ normalizeValue v lo d hi = some ((v - d) / (d - lo)))
    ∨ (v = d ∧ normalizeValue v lo d hi = some 0)
    ∨ (d < v ∧ normalizeValue v lo d hi = some ((v - d) / (hi - d))) := by
  unfold normalizeValue
  rw [if_neg (by simpa using h)]
  simp only [clamp_id v lo hi h1 h2]
  rcases lt_trichotomy v d with c | c | c
  · left
    refine ⟨c, ?_⟩
    have hlo : lo ≠ d := ne_of_lt (lt_of_le_of_lt h1 c)
    have hlh : lo ≠ hi := ne_of_lt (lt_of_lt_of_le (lt_of_le_of_lt h1 c) h.2)
    rw [if_neg (by intro e; rcases e with e | e; exact absurd e (ne_of_lt c); exact hlh e), if_pos (Or.inl ⟨c, hlo⟩)]
  · right; left
    exact ⟨c, by rw [if_pos (Or.inl c)]⟩
  · right; right
    refine ⟨c, ?_⟩
    have hhi : hi ≠ d := ne_of_gt (lt_of_lt_of_le c h2)
    have hlh : lo ≠ hi := ne_of_lt (lt_of_le_of_lt h.1 (lt_of_lt_of_le c h2))
    rw [if_neg (by intro e; rcases e with e | e; exact absurd e (ne_of_gt c); exact hlh e),
      if_neg (by intro e; rcases e with e | e; exact absurd e.1 (not_lt.mpr (le_of_lt c)); exact hhi e.2)]

/-- every position inside the declared range normalises into [-1, 1] -/
theorem normalize_in_box (v lo d hi x : Q) (h : lo ≤ d ∧ d ≤ hi) (h1 : lo ≤ v) (h2 : v ≤ hi)
    (hx : normalizeValue v lo d hi = some x) : -1 ≤ x ∧ x ≤ 1 := by
  rcases normalize_cases v lo d hi h h1 h2 with ⟨c, e⟩ | ⟨c, e⟩ | ⟨c, e⟩
  · rw [e] at hx; cases hx
    have hp : 0 < d - lo := by linarith
    constructor
    · rw [le_div_iff₀ hp]; linarith
    · have : (v - d) / (d - lo) ≤ 0 := div_nonpos_of_nonpos_of_nonneg (by linarith) (le_of_lt hp)
      linarith
  · rw [e] at hx; cases hx; constructor <;> norm_num
  · rw [e] at hx; cases hx
    have hp : 0 < hi - d := by linarith
    constructor
    · have : 0 ≤ (v - d) / (hi - d) := div_nonneg (by linarith) (le_of_lt hp)
      linarith
    · rw [div_le_iff₀ hp]; linarith

/-- the sign of the normalised value tells the side of the default -/
theorem normalize_sign (v lo d hi x : Q) (h : lo ≤ d ∧ d ≤ hi) (h1 : lo ≤ v) (h2 : v ≤ hi)
    (hx : normalizeValue v lo d hi = some x) : (x < 0 ↔ v < d) ∧ (x = 0 ↔ v = d) ∧ (0 < x ↔ d < v) := by
  rcases normalize_cases v lo d hi h h1 h2 with ⟨c, e⟩ | ⟨c, e⟩ | ⟨c, e⟩
  · rw [e] at hx; cases hx
    have hp : 0 < d - lo := by linarith
    have hn : (v - d) / (d - lo) < 0 := div_neg_of_neg_of_pos (by linarith) hp
    exact ⟨⟨fun _ => c, fun _ => hn⟩, ⟨fun e => absurd e (ne_of_lt hn), fun e => absurd e (ne_of_lt c)⟩,
      ⟨fun e => absurd (lt_trans hn e) (lt_irrefl _), fun e => absurd (lt_trans c e) (lt_irrefl _)⟩⟩
  · rw [e] at hx; cases hx
    exact ⟨⟨fun e => absurd e (lt_irrefl _), fun e => absurd (c ▸ e) (lt_irrefl _)⟩, ⟨fun _ => c, fun _ => rfl⟩,
      ⟨fun e => absurd e (lt_irrefl _), fun e => absurd (c ▸ e) (lt_irrefl _)⟩⟩
  · rw [e] at hx; cases hx
    have hp : 0 < hi - d := by linarith
    have hn : 0 < (v - d) / (hi - d) := div_pos (by linarith) hp
    exact ⟨⟨fun e => absurd (lt_trans hn e) (lt_irrefl _), fun e => absurd (lt_trans c e) (lt_irrefl _)⟩,
      ⟨fun e => absurd e (ne_of_gt hn), fun e => absurd e (ne_of_gt c)⟩, ⟨fun _ => c, fun _ => hn⟩⟩

/-- distinct positions inside the range stay distinct after normalisation -/
theorem normalize_inj (v w lo d hi x : Q) (h : lo ≤ d ∧ d ≤ hi) (hv1 : lo ≤ v) (hv2 : v ≤ hi) (hw1 : lo ≤ w)
    (hw2 : w ≤ hi) (hv : normalizeValue v lo d hi = some x) (hw : normalizeValue w lo d hi = some x) : v = w := by
  have sv := normalize_sign v lo d hi x h hv1 hv2 hv
  have sw := normalize_sign w lo d hi x h hw1 hw2 hw
  rcases normalize_cases v lo d hi h hv1 hv2 with ⟨c, e⟩ | ⟨c, e⟩ | ⟨c, e⟩
  · have cw : w < d := sw.1.mp (sv.1.mpr c)
    rcases normalize_cases w lo d hi h hw1 hw2 with ⟨c2, e2⟩ | ⟨c2, _⟩ | ⟨c2, _⟩
    · rw [e] at hv; rw [e2] at hw
      have hp : d - lo ≠ 0 := by intro z; linarith
      have := Option.some.inj (hv.trans hw.symm)
      rw [div_left_inj' hp] at this
      linarith
    · exact absurd (c2 ▸ cw) (lt_irrefl _)
    · exact absurd (lt_trans cw c2) (lt_irrefl _)
  · have cw : w = d := sw.2.1.mp (sv.2.1.mpr c)
    rw [c, cw]
  · have cw : d < w := sw.2.2.mp (sv.2.2.mpr c)
    rcases normalize_cases w lo d hi h hw1 hw2 with ⟨c2, _⟩ | ⟨c2, _⟩ | ⟨c2, e2⟩
    · exact absurd (lt_trans cw c2) (lt_irrefl _)
    · exact absurd (c2 ▸ cw) (lt_irrefl _)
    · rw [e] at hv; rw [e2] at hw
      have hp : hi - d ≠ 0 := by intro z; linarith
      have := Option.some.inj (hv.trans hw.symm)
      rw [div_left_inj' hp] at this
      linarith


end NanoVerif.Var
