import NanoVerif.Generated.TrFixed
import NanoVerif.Model.Fixed
import Mathlib.Tactic.NormNum
/-
Tie T: the functions of `fixed.py` as translated from the current source equal the hand-written
models the C16 theorems are about.  A change of a limit, a comparison or the shape of a predicate in
`fixed.py` changes `Generated/TrFixed.lean` and these proofs stop checking.
-/
namespace NanoVerif.TrProofs
open NanoVerif

theorem consts_agree : Tr.MIN_INT16 = Gen.MIN_INT16 ∧ Tr.MAX_INT16 = Gen.MAX_INT16 ∧
    Tr.MIN_F2DOT14 = Gen.MIN_F2DOT14 ∧ Tr.MAX_F2DOT14 = Gen.MAX_F2DOT14 ∧
    Tr.MIN_FIXED = Gen.MIN_FIXED ∧ Tr.MAX_FIXED = Gen.MAX_FIXED := by
  decide +kernel

theorem int16_safe_eq (vs : List Q) : Tr.int16_safe vs = .ok (int16Safe vs) := by
  obtain ⟨h1, h2, -⟩ := consts_agree
  have hf : (fun v : Q => (almostEq Gen.ALMOST_EQUAL_TOL v (Py.int v) && (decide (Tr.MIN_INT16 ≤ v) && decide (v ≤ Tr.MAX_INT16)))) = int16Safe1 := by
    funext v
    simp only [int16Safe1, tol, Py.int, h1, h2, Bool.and_assoc]
  show Except.ok (vs.all _) = _
  rw [hf]
  rfl

theorem f2dot14_safe_eq (vs : List Q) : Tr.f2dot14_safe vs = .ok (f2dot14Safe vs) := by
  obtain ⟨-, -, h3, h4, -⟩ := consts_agree
  have hf : (fun v : Q => (decide (Tr.MIN_F2DOT14 ≤ v) && decide (v ≤ Tr.MAX_F2DOT14))) = f2dot14Safe1 := by
    funext v
    simp only [f2dot14Safe1, h3, h4]
  show Except.ok (vs.all _) = _
  rw [hf]
  rfl

theorem fixed_safe_eq (vs : List Q) : Tr.fixed_safe vs = .ok (fixedSafe vs) := by
  obtain ⟨-, -, -, -, h5, h6⟩ := consts_agree
  have hf : (fun v : Q => (decide (Tr.MIN_FIXED ≤ v) && decide (v ≤ Tr.MAX_FIXED))) = fixedSafe1 := by
    funext v
    simp only [fixedSafe1, h5, h6]
  show Except.ok (vs.all _) = _
  rw [hf]
  rfl

end NanoVerif.TrProofs
