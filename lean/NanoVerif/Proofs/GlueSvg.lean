import NanoVerif.Model.GlueSvg
import Mathlib.Data.List.Perm.Basic
import Mathlib.Data.List.Nodup
import Mathlib.Tactic.Ring
/-
`_copy_svg`'s new glyph order: every glyph the donor's SVG table draws keeps the donor's glyph id, and the target font keeps exactly its glyphs.
-/
namespace NanoVerif

theorem go_places : ∀ (svg : List (Nat × String)) (new pool res : List String),
    (svg.map (·.1)).Pairwise (· < ·) → (∀ p ∈ svg, new.length ≤ p.1) → copySvgGo new pool svg = some res →
    (∀ p ∈ svg, res[p.1]? = some p.2) ∧ (∀ i, i < new.length → res[i]? = new[i]?)
  | [], new, pool, res, _, _, h => by
    simp only [copySvgGo, Option.some.injEq] at h
    subst h
    refine ⟨by simp, fun i hi => ?_⟩
    rw [List.getElem?_append_left hi]
  | (gid, name) :: r, new, pool, res, hpw, hge, h => by
    simp only [copySvgGo] at h
    split at h
    · cases h
    · rename_i hk
      have hlen : new.length ≤ gid := hge (gid, name) (by simp)
      have hk' : gid - new.length ≤ pool.length := by omega
      have hnew' : (new ++ pool.take (gid - new.length) ++ [name]).length = gid + 1 := by
        simp only [List.length_append, List.length_take, List.length_cons, List.length_nil]
        rw [Nat.min_eq_left hk']; omega
      simp only [List.map_cons, List.pairwise_cons] at hpw
      have hge' : ∀ p ∈ r, (new ++ pool.take (gid - new.length) ++ [name]).length ≤ p.1 := by
        intro p hp
        rw [hnew']
        have := hpw.1 p.1 (List.mem_map_of_mem hp)
        omega
      obtain ⟨ih1, ih2⟩ := go_places r _ _ res hpw.2 hge' h
      have hgid : res[gid]? = some name := by
        rw [ih2 gid (by rw [hnew']; omega)]
        have hl : (new ++ pool.take (gid - new.length)).length = gid := by
          simp only [List.length_append, List.length_take]; rw [Nat.min_eq_left hk']; omega
        rw [List.getElem?_append_right (by rw [hl])]
        simp [hl]
      refine ⟨?_, ?_⟩
      · intro p hp
        rcases List.mem_cons.mp hp with rfl | hp
        · exact hgid
        · exact ih1 p hp
      · intro i hi
        rw [ih2 i (by rw [hnew']; omega)]
        rw [List.append_assoc, List.getElem?_append_left hi]

theorem go_perm : ∀ (svg : List (Nat × String)) (new pool res : List String),
    copySvgGo new pool svg = some res → res.Perm (new ++ pool ++ svg.map (·.2))
  | [], new, pool, res, h => by
    simp only [copySvgGo, Option.some.injEq] at h
    subst h; simp
  | (gid, name) :: r, new, pool, res, h => by
    simp only [copySvgGo] at h
    split at h
    · cases h
    · have ih := go_perm r _ _ res h
      refine ih.trans ?_
      rw [List.perm_iff_count]
      intro a
      have e := congrArg (List.count a) (List.take_append_drop (gid - new.length) pool)
      simp only [List.count_append] at e
      simp only [List.count_append, List.map_cons, List.count_cons, List.count_nil]
      omega

/-- **C12 (SVG glyph ids stay put)** when the donor's document records are in ascending glyph order (as C07 demands of every SVG table), each glyph
the donor's SVG table draws sits, in the re-ordered target font, at exactly the glyph id the donor's documents use for it. -/
theorem copySvg_places (target : List String) (svg : List (Nat × String)) (res : List String)
    (hasc : (svg.map (·.1)).Pairwise (· < ·)) (h : copySvgOrder target svg = some res) :
    ∀ p ∈ svg, res[p.1]? = some p.2 :=
  (go_places svg [] _ res hasc (by simp) h).1

/-- **C12 (nothing added, nothing lost)** the new order is a rearrangement of the target's own glyphs, provided the donor's SVG glyphs are distinct
glyphs of the target. -/
theorem copySvg_perm (target : List String) (svg : List (Nat × String)) (res : List String)
    (hT : target.Nodup) (hS : (svg.map (·.2)).Nodup) (hsub : ∀ n ∈ svg.map (·.2), n ∈ target)
    (h : copySvgOrder target svg = some res) : res.Perm target := by
  have hp := go_perm svg [] _ res h
  simp only [List.nil_append] at hp
  refine hp.trans ?_
  have hpool : (target.filter (fun g => !(svg.map (·.2)).contains g)).Nodup := hT.filter _
  have hdisj : ∀ a ∈ target.filter (fun g => !(svg.map (·.2)).contains g), a ∉ svg.map (·.2) := by
    intro a ha
    have := (List.mem_filter.mp ha).2
    simpa using this
  have hnd : (target.filter (fun g => !(svg.map (·.2)).contains g) ++ svg.map (·.2)).Nodup :=
    List.nodup_append.mpr ⟨hpool, hS, fun a ha b hb hab => hdisj a ha (hab ▸ hb)⟩
  rw [List.perm_ext_iff_of_nodup hnd hT]
  intro a
  simp only [List.mem_append, List.mem_filter, Bool.not_eq_eq_eq_not, Bool.not_true, List.contains_eq_mem, decide_eq_false_iff_not]
  constructor
  · rintro (⟨ha, _⟩ | ha)
    · exact ha
    · exact hsub a ha
  · intro ha
    by_cases hm : a ∈ svg.map (·.2)
    · exact Or.inr hm
    · exact Or.inl ⟨ha, hm⟩

/-- the hypothesis of `copySvg_places` is needed: with document records out of glyph order the glyphs land elsewhere -/
example : copySvgOrder [".notdef", "space", "a", "b", "c"] [(3, "a"), (2, "b")] = some [".notdef", "space", "c", "a", "b"] := by decide +kernel
example : copySvgOrder [".notdef", "space", "a", "b", "c"] [(2, "b"), (3, "a")] = some [".notdef", "space", "b", "a", "c"] := by decide +kernel
example : copySvgOrder ["a", "b"] [(5, "a")] = none := by decide +kernel

end NanoVerif
