import NanoVerif.Model.Gradient
import NanoVerif.Proofs.AffineLemmas
import Mathlib.Tactic.NormNum
/- Helper lemmas for C16.3: `decompose_translation`. -/
open NanoVerif Gen
namespace NanoVerif.C16

/-- Whenever `decompose_translation` returns, the parts compose back to the input within the
library's own assertion tolerance (1e-4); in the no-translation shortcut within 1e-9. -/
theorem decomposeTranslation_close (t tr ap : Aff) (h : decomposeTranslation t = .ok (tr, ap)) :
    t.almostEquals DECOMPOSITION_TOL (Aff.composeLtr [tr, ap]) = true ∨
    (tr = Aff.id ∧ t.almostEquals tol ap = true) := by
  unfold decomposeTranslation at h
  simp only at h
  split at h
  next h0 =>
    right
    simp only [Except.ok.injEq, Prod.mk.injEq] at h
    exact ⟨h.1.symm, h.2 ▸ h0⟩
  · left
    split at h
    · cases h
    next xp yp _ =>
      split at h
      next ht =>
        simp only [Except.ok.injEq, Prod.mk.injEq] at h
        rw [← h.1, ← h.2]; exact ht
      · cases h

/-- In the main branch (`a` not almost 0) the split is exact. -/
theorem decomposeTranslation_exact (t tr ap : Aff) (h : decomposeTranslation t = .ok (tr, ap))
    (hnt : t.almostEquals tol { t with e := 0, f := 0 } = false)
    (ha : almostEq tol t.a 0 = false) : Aff.composeLtr [tr, ap] = t := by
  have ha0 : t.a ≠ 0 := by
    intro h0
    have : almostEq tol t.a 0 = true := by
      rw [almostEq_iff, h0]; norm_num [tol, ALMOST_EQUAL_TOL, mkQ_eq]
    rw [this] at ha; cases ha
  unfold decomposeTranslation at h
  simp only [hnt, ha] at h
  simp only [Bool.false_eq_true, ↓reduceIte, not_false_eq_true] at h
  split at h
  · cases h
  next xp yp hxy =>
    split at hxy
    · cases hxy
    next hden =>
      simp only [Except.ok.injEq, Prod.mk.injEq] at hxy
      split at h
      · simp only [Except.ok.injEq, Prod.mk.injEq] at h
        rw [← h.1, ← h.2, Aff.composeLtr2]
        obtain ⟨hx, hy⟩ := hxy
        have hD : t.a * t.d - t.c * t.b ≠ 0 := by
          intro h0; apply hden; field_simp; linarith
        have hD2 : t.a * t.d - t.b * t.c ≠ 0 := by rw [mul_comm t.b]; exact hD
        have hD3 : -(t.b * t.c) + t.a * t.d ≠ 0 := by rw [neg_add_eq_sub]; exact hD2
        ext <;> simp [Aff.mul, Aff.translate, Aff.id]
        · rw [← hx, ← hy]; field_simp; ring
        · rw [← hx, ← hy]; field_simp; ring
      · cases h



end NanoVerif.C16
