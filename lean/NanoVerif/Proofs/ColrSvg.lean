import NanoVerif.Model.ColrSvg
import NanoVerif.Props.C06
/-
`_colr_v1_paint_to_svg` preserves the picture, for every supported paint graph (any nesting depth, any number
of layers, any chain of transform paints above a PaintGlyph and between a PaintGlyph and its gradient).
-/
open NanoVerif Gen
namespace NanoVerif.C13
open NanoVerif.C06

/-- the laws of source-over compositing the flattening of nested PaintColrLayers relies on -/
structure PixLaws {α} (E : PixAlg α) : Prop where
  over_assoc : ∀ a b c, E.over a (E.over b c) = E.over (E.over a b) c
  clear_over : ∀ a, E.over E.clear a = a
  over_clear : ∀ a, E.over a E.clear = a

theorem compL_eq {α} {E : PixAlg α} (L : PixLaws E) : ∀ (l : List α) (acc : α), E.compL acc l = E.over (E.comp l) acc
  | [], acc => by simp [PixAlg.compL, PixAlg.comp, L.clear_over]
  | t :: ts, acc => by
    simp only [PixAlg.compL, PixAlg.comp]
    rw [compL_eq L ts (E.over t acc), compL_eq L ts (E.over t E.clear), L.over_clear, L.over_assoc]

theorem compL_append {α} (E : PixAlg α) : ∀ (l1 l2 : List α) (acc : α), E.compL acc (l1 ++ l2) = E.compL (E.compL acc l1) l2
  | [], _, _ => rfl
  | t :: ts, l2, acc => by simp only [List.cons_append, PixAlg.compL]; exact compL_append E ts l2 _

theorem comp_append {α} {E : PixAlg α} (L : PixLaws E) (l1 l2 : List α) :
    E.comp (l1 ++ l2) = E.over (E.comp l2) (E.comp l1) := by
  unfold PixAlg.comp
  rw [compL_append, compL_eq L l2]
  rfl

theorem comp_single {α} {E : PixAlg α} (L : PixLaws E) (a : α) : E.comp [a] = a := by
  simp [PixAlg.comp, PixAlg.compL, L.over_clear]

theorem comp_cons {α} {E : PixAlg α} (L : PixLaws E) (a : α) (l : List α) : E.comp (a :: l) = E.over (E.comp l) a := by
  have := comp_append L [a] l
  rwa [comp_single L] at this

def fillPix {α} (E : PixAlg α) : SFill → Pt → α
  | .solid c a, _ => E.solidPix c a
  | .lin g l, z => E.linePix l (linParam g z)
  | .rad g gt l, z => E.radPix l (g.sol ((gt.inverseEps eps).app z))

theorem id_invertible : C06.Invertible Aff.id := by
  unfold C06.Invertible
  norm_num [Aff.det, Aff.id, qabs, eps, FLOAT_EPSILON, mkQ_eq]

theorem inv_id_app (x : Pt) : (Aff.id.inverseEps eps).app x = x := by
  simp [Aff.inverseEps, Aff.app, Aff.id]

/-- accumulated inverse: `(A·B)⁻¹ x = B⁻¹ (A⁻¹ x)` as `Affine2D.inverse` computes it -/
theorem inv_mul_app {A B : Aff} (hA : Invertible A) (hB : Invertible B) (hAB : Invertible (A.mul B)) (x : Pt) :
    ((A.mul B).inverseEps eps).app x = (B.inverseEps eps).app ((A.inverseEps eps).app x) := by
  have h : (A.mul B).app ((B.inverseEps eps).app ((A.inverseEps eps).app x)) = x := by
    rw [app_mul, app_inv hB, app_inv hA]
  have := congrArg ((A.mul B).inverseEps eps).app h
  rw [inv_app hAB] at this
  exact this.symm

/-- what a usable similarity/remainder split gives for every invertible transform: `compose_ltr((u, r)) = t` with `u` a similarity
(positive uniform scale, possibly with the y-flip kept) -/
structure DecOK (dec : Dec) : Prop where
  ok : ∀ t, Invertible t → Aff.composeLtr [(dec t).1, (dec t).2] = t ∧ (dec t).1.b = 0 ∧ (dec t).1.c = 0 ∧
    ((dec t).1.d = (dec t).1.a ∨ (dec t).1.d = -(dec t).1.a) ∧ 0 < (dec t).1.a ∧ Invertible (dec t).1 ∧ Invertible (dec t).2

/-- the degenerate split (no uniform part: circles untouched, everything in `gradientTransform`) is one: `DecOK` is inhabited -/
theorem decOK_trivial : DecOK (fun t => (Aff.id, t)) :=
  ⟨fun t ht => ⟨by simp [Aff.composeLtr, Aff.mul, Aff.id], rfl, rfl, Or.inl rfl, by norm_num [Aff.id], id_invertible, ht⟩⟩

/-- **radial gradients under a general affine**: the circles mapped by the similarity `u`, looked at through the remainder `r`, have at
every point exactly the colour-line solutions the original circles have through `t = compose_ltr((u, r))` -/
theorem radial_split_sound (g : RadGrad) (t u r : Aff) (hcomp : Aff.composeLtr [u, r] = t)
    (hb : u.b = 0) (hc : u.c = 0) (hd : u.d = u.a ∨ u.d = -u.a) (hs : 0 < u.a)
    (hu : Invertible u) (hr : Invertible r) (ht : Invertible t) (x : Pt) (τ : Q) :
    (g.applyUniform u).sol ((r.inverseEps eps).app x) τ ↔ g.sol ((t.inverseEps eps).app x) τ := by
  rw [Aff.composeLtr2] at hcomp
  subst hcomp
  rw [inv_mul_app hr hu ht]
  have := C16.radial_similarity u hb hc hd hs g ((u.inverseEps eps).app ((r.inverseEps eps).app x)) τ
  rwa [app_inv hu] at this

mutual
def FillOK (V : Aff) : Aff → CP → Prop
  | _, .solid _ _ => True
  | t, .lin _ _ => Invertible (Aff.composeLtr [t, V])
  | t, .rad _ _ => Invertible (Aff.composeLtr [t, V])
  | t, .transform m c => Invertible m ∧ Invertible (t.mul m) ∧ FillOK V (t.mul m) c
  | _, .glyph _ _ => False
  | _, .layers _ => False
  | _, .group _ _ => False
  | _, .ref _ => False
end

mutual
def WFAt (V : Aff) : Aff → CP → Prop
  | acc, .glyph _ c => Invertible (pathTr V acc) ∧ FillOK V Aff.id c
  | acc, .transform m c => Invertible m ∧ Invertible (acc.mul m) ∧ WFAt V (acc.mul m) c
  | acc, .layers ps => WFList V acc ps
  | acc, .group _ c => WFAt V acc c
  | acc, .ref c => Invertible (pathTr V acc) ∧ WFAt V Aff.id c
  | _, .solid _ _ => False
  | _, .lin _ _ => False
  | _, .rad _ _ => False
def WFList (V : Aff) : Aff → List CP → Prop
  | _, [] => True
  | acc, p :: ps => WFAt V acc p ∧ WFList V acc ps
end

/-- the fill written on the `<path>` shows, at `V u`, what the COLR fill shows at `u` -/
theorem fill_correct {α} (E : PixAlg α) (V : Aff) (hV : Invertible V) (dec : Dec) (hdec : DecOK dec) : ∀ (c : CP) (t : Aff) (f : SFill),
    Invertible t → FillOK V t c → fillOf V dec t c = some f → ∀ u : Pt,
    colrRender E c ((t.inverseEps eps).app u) = fillPix E f (V.app u)
  | .solid c a, t, f, _, _, hf, u => by
    simp only [fillOf, Option.some.injEq] at hf
    subst hf
    simp [colrRender, fillPix]
  | .lin g l, t, f, ht, hok, hf, u => by
    simp only [fillOf, Option.some.injEq] at hf
    subst hf
    simp only [colrRender, fillPix]
    have hM : Invertible (Aff.composeLtr [t, V]) := hok
    have e : V.app u = (Aff.composeLtr [t, V]).app ((t.inverseEps eps).app u) := by
      rw [Aff.composeLtr2, app_mul, app_inv ht]
    rw [e, C16.linParam_affine _ hM.det_ne]
  | .rad g l, t, f, ht, hok, hf, u => by
    simp only [fillOf, Option.some.injEq] at hf
    subst hf
    simp only [colrRender, fillPix]
    have hM : Invertible (Aff.composeLtr [t, V]) := hok
    obtain ⟨hcomp, hb, hc, hd, hs, hu, hr⟩ := hdec.ok _ hM
    have key : ((Aff.composeLtr [t, V]).inverseEps eps).app (V.app u) = (t.inverseEps eps).app u := by
      have e : V.app u = (Aff.composeLtr [t, V]).app ((t.inverseEps eps).app u) := by
        rw [Aff.composeLtr2, app_mul, app_inv ht]
      rw [e, inv_app hM]
    congr 1
    funext τ
    apply propext
    have := radial_split_sound g _ _ _ hcomp hb hc hd hs hu hr hM (V.app u) τ
    rw [key] at this
    exact this.symm
  | .transform m c, t, f, ht, hok, hf, u => by
    obtain ⟨hm, htm, hok'⟩ := hok
    simp only [fillOf] at hf
    simp only [colrRender]
    have := fill_correct E V hV dec hdec c (t.mul m) f htm hok' hf u
    rw [inv_mul_app ht hm htm] at this
    exact this
  | .glyph _ _, _, _, _, hok, _, _ => by simp [FillOK] at hok
  | .layers _, _, _, _, hok, _, _ => by simp [FillOK] at hok
  | .group _ _, _, _, _, hok, _, _ => by simp [FillOK] at hok
  | .ref _, _, _, _, hok, _, _ => by simp [FillOK] at hok

theorem fillOf_some_of_ok (V : Aff) (dec : Dec) : ∀ (c : CP) (t : Aff), FillOK V t c → ∃ f, fillOf V dec t c = some f
  | .solid c a, _, _ => ⟨_, rfl⟩
  | .lin g l, _, _ => ⟨_, rfl⟩
  | .rad g l, _, _ => ⟨_, rfl⟩
  | .transform m c, t, h => by simpa [fillOf] using fillOf_some_of_ok V dec c (t.mul m) h.2.2
  | .glyph _ _, _, h => by simp [FillOK] at h
  | .layers _, _, h => by simp [FillOK] at h
  | .group _ _, _, h => by simp [FillOK] at h
  | .ref _, _, h => by simp [FillOK] at h

theorem svgRenderList_append {α} (E : PixAlg α) (V : Aff) : ∀ (l1 l2 : List SV) (y : Pt),
    svgRenderList E V (l1 ++ l2) y = svgRenderList E V l1 y ++ svgRenderList E V l2 y
  | [], _, _ => by simp [svgRenderList]
  | s :: ss, l2, y => by simp [svgRenderList, svgRenderList_append E V ss l2 y]

/-- the `transform` attribute puts the path where COLR puts the glyph -/
theorem pathTr_inv (V acc : Aff) (hV : Invertible V) (hacc : Invertible acc) (htr : Invertible (pathTr V acc)) (x : Pt) :
    ((pathTr V acc).inverseEps eps).app (V.app x) = V.app ((acc.inverseEps eps).app x) := by
  unfold pathTr at htr ⊢
  split
  next h => subst h; rw [inv_id_app, inv_id_app]
  next h =>
    rw [if_neg h] at htr
    have e : (Aff.composeLtr [V.inverseEps eps, acc, V]).app (V.app ((acc.inverseEps eps).app x)) = V.app x := by
      rw [Aff.composeLtr3, app_mul, app_mul, inv_app hV, app_inv hacc]
    have := congrArg ((Aff.composeLtr [V.inverseEps eps, acc, V]).inverseEps eps).app e
    rw [inv_app htr] at this
    exact this.symm

theorem applyTransform_comp (g : LinGrad) (A B : Aff) : (g.applyTransform A).applyTransform B = g.applyTransform (B.mul A) := by
  simp only [LinGrad.applyTransform, app_mul]

/-- fills `svg._apply_paint` is modelled for: solid and linear under transforms (its radial branch is the C02 known finding) -/
def NoRad : CP → Prop
  | .rad _ _ => False
  | .transform _ c => NoRad c
  | _ => True

/-- **C02**: `svg._apply_paint` computes the same fill as the colr_to_svg walk (`fillOf`): mapping the points by `U` and then
by the conjugated transform `U⁻¹;T;U` is mapping them by `T;U` -/
theorem applyPaintFill_eq_fillOf (U : Aff) (hU : C06.Invertible U) (dec : Dec) : ∀ (c : CP) (T : Aff), NoRad c →
    applyPaintFill U T c = fillOf U dec T c
  | .solid _ _, _, _ => rfl
  | .rad _ _, _, h => by simp [NoRad] at h
  | .lin g l, T, _ => by
    simp only [applyPaintFill, fillOf]
    congr 2
    split
    next h => subst h; rw [Aff.composeLtr2, Aff.mul_id]
    next h =>
      rw [applyTransform_comp, Aff.composeLtr3, Aff.composeLtr2]
      congr 1
      rw [Aff.mul_assoc', (Aff.mul_inverseEps eps U hU eps_nonneg).2, Aff.mul_id]
  | .transform m c, T, h => by
    simp only [applyPaintFill, fillOf]
    exact applyPaintFill_eq_fillOf U hU dec c (T.mul m) h
  | .glyph _ _, _, _ => rfl
  | .layers _, _, _ => rfl
  | .group _ _, _, _ => rfl
  | .ref _, _, _ => rfl

/-- **C02 (fill of an OT-SVG path)**: the fill `_apply_paint` writes for a paint under any chain of transform paints shows, at the
viewBox point `U u`, what the COLR-style paint shows at the font-space point `u` -/
theorem otsvg_fill_correct {α} (E : PixAlg α) (U : Aff) (hU : C06.Invertible U) (c : CP) (f : SFill)
    (hnr : NoRad c) (hok : FillOK U Aff.id c) (hf : applyPaintFill U Aff.id c = some f) (u : Pt) :
    colrRender E c u = fillPix E f (U.app u) := by
  rw [applyPaintFill_eq_fillOf U hU (fun t => (Aff.id, t)) c Aff.id hnr] at hf
  have := fill_correct E U hU _ decOK_trivial c Aff.id f id_invertible hok hf u
  rwa [inv_id_app] at this

mutual
/-- **C13 (recursive walk)**: for every supported paint graph, every accumulated transform, every point: the
elements `_colr_v1_paint_to_svg` emits show at `V x` exactly what COLR shows at `x` -/
theorem toSvg_correct {α} (E : PixAlg α) (L : PixLaws E) (V : Aff) (hV : Invertible V) (dec : Dec) (hdec : DecOK dec) : ∀ (p : CP) (acc : Aff),
    Invertible acc → WFAt V acc p → ∀ x : Pt,
    colrRender E p ((acc.inverseEps eps).app x) = E.comp (svgRenderList E V (toSvg V dec acc p) (V.app x))
  | .glyph o c, acc, hacc, hwf, x => by
    obtain ⟨htr, hok⟩ := hwf
    obtain ⟨f, hf⟩ := fillOf_some_of_ok V dec c Aff.id hok
    simp only [toSvg, hf, svgRenderList, comp_single L, svgRender, colrRender]
    rw [pathTr_inv V acc hV hacc htr x, inv_app hV]
    have hfill := fill_correct E V hV dec hdec c Aff.id f id_invertible hok hf ((acc.inverseEps eps).app x)
    rw [inv_id_app] at hfill
    split
    · rw [hfill]; cases f <;> rfl
    · rfl
  | .transform m c, acc, hacc, hwf, x => by
    obtain ⟨hm, ham, hwf'⟩ := hwf
    simp only [toSvg, colrRender]
    rw [← inv_mul_app hacc hm ham]
    exact toSvg_correct E L V hV dec hdec c (acc.mul m) ham hwf' x
  | .layers ps, acc, hacc, hwf, x => by
    simp only [toSvg, colrRender]
    exact toSvgList_correct E L V hV dec hdec ps acc hacc hwf x
  | .group a c, acc, hacc, hwf, x => by
    simp only [toSvg, colrRender, svgRenderList, comp_single L, svgRender]
    rw [toSvg_correct E L V hV dec hdec c acc hacc hwf x]
  | .ref c, acc, hacc, hwf, x => by
    obtain ⟨htr, hwf'⟩ := hwf
    simp only [toSvg, colrRender]
    have ih := toSvg_correct E L V hV dec hdec c Aff.id id_invertible hwf' ((acc.inverseEps eps).app x)
    rw [inv_id_app] at ih
    split
    next h => subst h; rw [inv_id_app] at ih ⊢; exact ih
    next h =>
      simp only [svgRenderList, comp_single L, svgRender]
      rw [pathTr_inv V acc hV hacc htr x]
      exact ih
  | .solid _ _, _, _, hwf, _ => by simp [WFAt] at hwf
  | .lin _ _, _, _, hwf, _ => by simp [WFAt] at hwf
  | .rad _ _, _, _, hwf, _ => by simp [WFAt] at hwf
theorem toSvgList_correct {α} (E : PixAlg α) (L : PixLaws E) (V : Aff) (hV : Invertible V) (dec : Dec) (hdec : DecOK dec) : ∀ (ps : List CP) (acc : Aff),
    Invertible acc → WFList V acc ps → ∀ x : Pt,
    E.comp (colrRenderList E ps ((acc.inverseEps eps).app x)) = E.comp (svgRenderList E V (toSvgList V dec acc ps) (V.app x))
  | [], _, _, _, _ => by simp [colrRenderList, toSvgList, svgRenderList]
  | p :: ps, acc, hacc, hwf, x => by
    obtain ⟨hp, hps⟩ := hwf
    simp only [colrRenderList, toSvgList]
    rw [comp_cons L, svgRenderList_append, comp_append L, toSvg_correct E L V hV dec hdec p acc hacc hp x,
      toSvgList_correct E L V hV dec hdec ps acc hacc hps x]
end

end NanoVerif.C13
