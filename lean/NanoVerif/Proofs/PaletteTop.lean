import NanoVerif.Proofs.Palette
import Mathlib.Data.List.Perm.Basic
import Mathlib.Data.List.Nodup
/- From the colour set to the sorted deque: sorting, dedup, index maxima; and the top-level theorems about
`uniq_sort_cpal_colors` (re-exported as obligations of C15). -/
open NanoVerif
namespace NanoVerif.C15

def key (c : Color) : Nat := c.idx.getD 0

theorem insertBy_perm (le : Color → Color → Bool) (c : Color) : ∀ l, (insertBy le c l).Perm (c :: l)
  | [] => List.Perm.refl _
  | d :: l => by
    simp only [insertBy]; split
    · exact List.Perm.refl _
    · exact ((insertBy_perm le c l).cons d).trans (List.Perm.swap c d l)

theorem sortBy_perm (le : Color → Color → Bool) : ∀ l, (sortBy le l).Perm l
  | [] => List.Perm.refl _
  | c :: l => (insertBy_perm le c _).trans ((sortBy_perm le l).cons c)

theorem insertBy_sorted (le : Color → Color → Bool) (tot : ∀ a b, le a b = true ∨ le b a = true)
    (tr : ∀ a b c, le a b = true → le b c = true → le a c = true) (c : Color) :
    ∀ l, l.Pairwise (fun a b => le a b = true) → (insertBy le c l).Pairwise (fun a b => le a b = true)
  | [], _ => by simp [insertBy]
  | d :: l, h => by
    simp only [insertBy]; split
    next hcd =>
      rw [List.pairwise_cons] at h ⊢
      refine ⟨?_, List.pairwise_cons.mpr h⟩
      intro a ha
      rcases List.mem_cons.mp ha with rfl | ha
      · exact hcd
      · exact tr _ _ _ hcd (h.1 a ha)
    next hcd =>
      rw [List.pairwise_cons] at h ⊢
      refine ⟨?_, insertBy_sorted le tot tr c l h.2⟩
      intro a ha
      rcases List.mem_cons.mp ((insertBy_perm le c l).subset ha) with rfl | ha
      · rcases tot a d with h1 | h1
        · exact absurd h1 hcd
        · exact h1
      · exact h.1 a ha

theorem sortBy_sorted (le : Color → Color → Bool) (tot : ∀ a b, le a b = true ∨ le b a = true)
    (tr : ∀ a b c, le a b = true → le b c = true → le a c = true) :
    ∀ l, (sortBy le l).Pairwise (fun a b => le a b = true)
  | [] => List.Pairwise.nil
  | c :: l => insertBy_sorted le tot tr c _ (sortBy_sorted le tot tr l)

theorem idxLe_total (a b : Color) : Color.idxLe a b = true ∨ Color.idxLe b a = true := by
  simp only [Color.idxLe, decide_eq_true_eq]; omega
theorem idxLe_trans (a b c : Color) : Color.idxLe a b = true → Color.idxLe b c = true → Color.idxLe a c = true := by
  simp only [Color.idxLe, decide_eq_true_eq]; omega

/-- strictly increasing keys, all indexed, all ≥ i  ⇒  the loop invariant `IdxAsc i` -/
theorem idxAsc_of_strict : ∀ (l : List Color) (i : Nat), (∀ c ∈ l, c.idx.isSome = true ∧ i ≤ key c) →
    l.Pairwise (fun a b => key a < key b) → IdxAsc i l
  | [], _, _, _ => trivial
  | c :: l, i, h, hp => by
    have hc := h c (by simp)
    obtain ⟨k, hk⟩ := Option.isSome_iff_exists.mp hc.1
    refine ⟨k, hk, by simpa [key, hk] using hc.2, ?_⟩
    rw [List.pairwise_cons] at hp
    apply idxAsc_of_strict l (k + 1) _ hp.2
    intro d hd
    refine ⟨(h d (by simp [hd])).1, ?_⟩
    have := hp.1 d hd
    simp only [key, hk, Option.getD_some] at this
    exact this

/-- one more than the largest explicit index (0 if there is none), in a form convenient for induction -/
def M : List Color → Nat
  | [] => 0
  | c :: l => match c.idx with
    | some k => max (k + 1) (M l)
    | none => M l

theorem foldl_maxIdx (l : List Color) (a : Nat) :
    l.foldl maxIdxStep a = max a (M l) := by
  induction l generalizing a with
  | nil => simp [M]
  | cons c l ih =>
    simp only [List.foldl_cons, M, maxIdxStep]
    cases hc : c.idx with
    | none => simp only [ih]
    | some k => simp only [ih]; omega

theorem maxIdxP1_eq_M (l : List Color) : maxIdxP1 l = M l := by
  unfold maxIdxP1; rw [foldl_maxIdx]; omega

theorem M_perm {l₁ l₂ : List Color} (h : l₁.Perm l₂) : M l₁ = M l₂ := by
  induction h with
  | nil => rfl
  | cons c _ ih => simp only [M]; cases c.idx <;> simp [ih]
  | swap a b l =>
    simp only [M]
    cases a.idx <;> cases b.idx <;> simp <;> omega
  | trans _ _ ih1 ih2 => exact ih1.trans ih2

theorem M_filter_isSome (l : List Color) : M (l.filter (·.idx.isSome)) = M l := by
  induction l with
  | nil => rfl
  | cons c l ih =>
    cases hc : c.idx with
    | none => simp [List.filter_cons, hc, M, ih]
    | some k => simp [List.filter_cons, hc, M, ih]

theorem M_eq_sup : ∀ (l : List Color), (∀ c ∈ l, c.idx.isSome = true) → M l = sup l
  | [], _ => rfl
  | c :: l, h => by
    obtain ⟨k, hk⟩ := Option.isSome_iff_exists.mp (h c (by simp))
    simp only [M, sup, hk, Option.getD_some]
    rw [M_eq_sup l (fun d hd => h d (by simp [hd]))]

/-- no two different colours share an explicit index -/
def NoConflict (l : List Color) : Prop := ∀ c ∈ l, ∀ d ∈ l, c.idx.isSome = true → c.idx = d.idx → c = d

theorem noConflict_of_hasConflict_false {l : List Color} (h : hasConflict l = false) : NoConflict l := by
  intro c hc d hd hs he
  by_contra hne
  have : hasConflict l = true := by
    simp only [hasConflict, List.any_eq_true]
    exact ⟨c, hc, d, hd, by simp [← he, hs, hne]⟩
  rw [h] at this; cases this

theorem hasConflict_of_not_noConflict {l : List Color} (h : hasConflict l = true) : ¬ NoConflict l := by
  intro hn
  simp only [hasConflict, List.any_eq_true, Bool.and_eq_true, bne_iff_ne, beq_iff_eq] at h
  obtain ⟨c, hc, d, hd, ⟨hs, he⟩, hne⟩ := h
  exact hne (hn c hc d hd hs he)

theorem filter_length_partition (l : List Color) :
    (l.filter (·.idx.isSome)).length + (l.filter (·.idx.isNone)).length = l.length := by
  induction l with
  | nil => rfl
  | cons c l ih => cases hc : c.idx <;> simp [List.filter_cons, hc] <;> omega

theorem strict_of_sorted_distinct : ∀ (l : List Color), l.Pairwise (fun a b => Color.idxLe a b = true) → l.Nodup →
    (∀ a ∈ l, ∀ b ∈ l, a ≠ b → key a ≠ key b) → l.Pairwise (fun a b => key a < key b)
  | [], _, _, _ => List.Pairwise.nil
  | a :: l, hs, hnd, hk => by
    rw [List.pairwise_cons] at hs
    rw [List.nodup_cons] at hnd
    refine List.Pairwise.cons ?_ (strict_of_sorted_distinct l hs.2 hnd.2 (fun x hx y hy => hk x (List.mem_cons_of_mem _ hx) y (List.mem_cons_of_mem _ hy)))
    intro b hb
    have hle : key a ≤ key b := by simpa [Color.idxLe, key] using hs.1 b hb
    have hne : key a ≠ key b := hk a (by simp) b (List.mem_cons_of_mem _ hb) (fun e => hnd.1 (e ▸ hb))
    omega

/-- the indexed part, sorted by index, satisfies the loop invariant -/
theorem sorted_indexed_idxAsc (all : List Color) (hnd : all.Nodup) (hnc : NoConflict all) :
    IdxAsc 0 (sortBy Color.idxLe (all.filter (·.idx.isSome))) := by
  set L := all.filter (·.idx.isSome) with hL
  have hperm := sortBy_perm Color.idxLe L
  have hsome : ∀ c ∈ sortBy Color.idxLe L, c.idx.isSome = true := by
    intro c hc
    have := hperm.subset hc
    exact (List.mem_filter.mp this).2
  apply idxAsc_of_strict _ 0 (fun c hc => ⟨hsome c hc, Nat.zero_le _⟩)
  have hs := sortBy_sorted Color.idxLe idxLe_total idxLe_trans L
  have hnd' : (sortBy Color.idxLe L).Nodup := hperm.nodup_iff.mpr (hnd.filter _)
  -- ≤ on keys + distinct elements + no conflict ⇒ < on keys
  have : ∀ a ∈ sortBy Color.idxLe L, ∀ b ∈ sortBy Color.idxLe L, a ≠ b → key a ≠ key b := by
    intro a ha b hb hab hk
    have ha' := List.mem_filter.mp (hperm.subset ha)
    have hb' := List.mem_filter.mp (hperm.subset hb)
    obtain ⟨ka, hka⟩ := Option.isSome_iff_exists.mp ha'.2
    obtain ⟨kb, hkb⟩ := Option.isSome_iff_exists.mp hb'.2
    simp only [key, hka, hkb, Option.getD_some] at hk
    exact hab (hnc a ha'.1 b hb'.1 ha'.2 (by rw [hka, hkb, hk]))
  clear hsome
  exact strict_of_sorted_distinct _ hs hnd' this

/-- **C15.8 top level (`never_pops_empty` + final assert)**: for every duplicate-free colour collection
without index conflict, `uniq_sort_cpal_colors` returns a palette (never IndexError / AssertionError). -/
theorem uniqSortAll_total (all : List Color) (hnd : all.Nodup) (hnc : hasConflict all = false) :
    ∃ r, uniqSortAll all = .ok r := by
  unfold uniqSortAll
  simp only [hnc, Bool.false_eq_true, ↓reduceIte]
  have hI := sorted_indexed_idxAsc all hnd (noConflict_of_hasConflict_false hnc)
  apply fillSlots_total _ 0 _ _ hI
  have hlenI := (sortBy_perm Color.idxLe (all.filter (·.idx.isSome))).length_eq
  have hlenU := (sortBy_perm Color.rgbaLe (all.filter (·.idx.isNone))).length_eq
  have hpart := filter_length_partition all
  have hsup : sup (sortBy Color.idxLe (all.filter (·.idx.isSome))) = maxIdxP1 all := by
    rw [maxIdxP1_eq_M, ← M_filter_isSome all, ← M_perm (sortBy_perm Color.idxLe _)]
    symm
    apply M_eq_sup
    intro c hc
    exact (List.mem_filter.mp ((sortBy_perm Color.idxLe _).subset hc)).2
  rw [hsup, hlenI, hlenU]
  omega

theorem rgbaLe_total (a b : Color) : Color.rgbaLe a b = true ∨ Color.rgbaLe b a = true := by
  unfold Color.rgbaLe
  by_cases h1 : a.r = b.r <;> by_cases h2 : a.g = b.g <;> by_cases h3 : a.b = b.b <;>
    simp [h1, h2, h3, Ne.symm, eq_comm] <;> first | omega | exact le_total _ _ | (rcases lt_trichotomy a.r b.r with h | h | h <;> simp_all <;> omega)

theorem rgbaLe_iff (a b : Color) : Color.rgbaLe a b = true ↔
    a.r < b.r ∨ (a.r = b.r ∧ (a.g < b.g ∨ (a.g = b.g ∧ (a.b < b.b ∨ (a.b = b.b ∧ a.a ≤ b.a))))) := by
  unfold Color.rgbaLe
  by_cases h1 : a.r = b.r <;> by_cases h2 : a.g = b.g <;> by_cases h3 : a.b = b.b <;> simp [h1, h2, h3] <;> omega

theorem rgbaLe_trans (a b c : Color) (h1 : Color.rgbaLe a b = true) (h2 : Color.rgbaLe b c = true) : Color.rgbaLe a c = true := by
  rw [rgbaLe_iff] at *
  rcases h1 with h1 | ⟨e1, h1 | ⟨e2, h1 | ⟨e3, h1⟩⟩⟩ <;> rcases h2 with h2 | ⟨f1, h2 | ⟨f2, h2 | ⟨f3, h2⟩⟩⟩ <;>
    first
    | (left; omega)
    | (right; refine ⟨by omega, ?_⟩; first | (left; omega) | (right; refine ⟨by omega, ?_⟩; first | (left; omega) | (right; exact ⟨by omega, le_trans h1 h2⟩)))

theorem rgbaLe_antisymm (a b : Color) (h1 : Color.rgbaLe a b = true) (h2 : Color.rgbaLe b a = true) :
    a.r = b.r ∧ a.g = b.g ∧ a.b = b.b ∧ a.a = b.a := by
  rw [rgbaLe_iff] at *
  rcases h1 with h1 | ⟨e1, h1 | ⟨e2, h1 | ⟨e3, h1⟩⟩⟩ <;> rcases h2 with h2 | ⟨f1, h2 | ⟨f2, h2 | ⟨f3, h2⟩⟩⟩ <;>
    first | omega | exact ⟨e1, e2, e3, le_antisymm h1 h2⟩

theorem noConflict_perm {l₁ l₂ : List Color} (h : l₁.Perm l₂) (hn : NoConflict l₁) : NoConflict l₂ :=
  fun c hc d hd hs he => hn c (h.symm.subset hc) d (h.symm.subset hd) hs he

theorem hasConflict_perm {l₁ l₂ : List Color} (h : l₁.Perm l₂) : hasConflict l₁ = hasConflict l₂ := by
  cases h1 : hasConflict l₁ <;> cases h2 : hasConflict l₂ <;> try rfl
  · exact absurd (noConflict_perm h (noConflict_of_hasConflict_false h1)) (hasConflict_of_not_noConflict h2)
  · exact absurd (noConflict_perm h.symm (noConflict_of_hasConflict_false h2)) (hasConflict_of_not_noConflict h1)

theorem sorted_indexed_unique {l₁ l₂ : List Color} (h : l₁.Perm l₂) (hnc : NoConflict l₁) :
    sortBy Color.idxLe (l₁.filter (·.idx.isSome)) = sortBy Color.idxLe (l₂.filter (·.idx.isSome)) := by
  have p : (sortBy Color.idxLe (l₁.filter (·.idx.isSome))).Perm (sortBy Color.idxLe (l₂.filter (·.idx.isSome))) :=
    (sortBy_perm _ _).trans ((h.filter _).trans (sortBy_perm _ _).symm)
  refine List.Perm.eq_of_pairwise (le := fun a b => Color.idxLe a b = true) ?_
    (sortBy_sorted _ idxLe_total idxLe_trans _) (sortBy_sorted _ idxLe_total idxLe_trans _) p
  intro a b ha hb hab hba
  have ha' := List.mem_filter.mp ((sortBy_perm _ _).subset ha)
  have hb' := List.mem_filter.mp ((sortBy_perm _ _).subset hb)
  obtain ⟨ka, hka⟩ := Option.isSome_iff_exists.mp ha'.2
  obtain ⟨kb, hkb⟩ := Option.isSome_iff_exists.mp hb'.2
  simp only [Color.idxLe, hka, hkb, Option.getD_some, decide_eq_true_eq] at hab hba
  have : ka = kb := by omega
  exact hnc a ha'.1 b (h.symm.subset hb'.1) ha'.2 (by rw [hka, hkb, this])

theorem sorted_unindexed_unique {l₁ l₂ : List Color} (h : l₁.Perm l₂) :
    sortBy Color.rgbaLe (l₁.filter (·.idx.isNone)) = sortBy Color.rgbaLe (l₂.filter (·.idx.isNone)) := by
  have p : (sortBy Color.rgbaLe (l₁.filter (·.idx.isNone))).Perm (sortBy Color.rgbaLe (l₂.filter (·.idx.isNone))) :=
    (sortBy_perm _ _).trans ((h.filter _).trans (sortBy_perm _ _).symm)
  refine List.Perm.eq_of_pairwise (le := fun a b => Color.rgbaLe a b = true) ?_
    (sortBy_sorted _ rgbaLe_total rgbaLe_trans _) (sortBy_sorted _ rgbaLe_total rgbaLe_trans _) p
  intro a b ha hb hab hba
  have ha' := List.mem_filter.mp ((sortBy_perm _ _).subset ha)
  have hb' := List.mem_filter.mp ((sortBy_perm _ _).subset hb)
  obtain ⟨e1, e2, e3, e4⟩ := rgbaLe_antisymm a b hab hba
  have ia : a.idx = none := by simpa using ha'.2
  have ib : b.idx = none := by simpa using hb'.2
  cases a; cases b; simp_all

/-- **C15.6 (order independence, also C08)**: the palette does not depend on the order in which the colour
set is enumerated — for every two enumerations of the same duplicate-free collection. -/
theorem uniqSortAll_order_independent {l₁ l₂ : List Color} (h : l₁.Perm l₂) :
    uniqSortAll l₁ = uniqSortAll l₂ := by
  unfold uniqSortAll
  rw [hasConflict_perm h]
  split
  · rfl
  next hc =>
    have hnc : NoConflict l₁ := noConflict_perm h.symm (noConflict_of_hasConflict_false (Bool.eq_false_iff.mpr hc))
    simp only [h.length_eq, maxIdxP1_eq_M, M_perm h, sorted_indexed_unique h hnc, sorted_unindexed_unique h]

/-- **C15.2 top level**: a colour declared `var(--colorN, c)` sits at index N of the returned palette. -/
theorem uniqSortAll_indexed (all r : List Color) (hnd : all.Nodup) (h : uniqSortAll all = .ok r) :
    ∀ c ∈ all, ∀ k, c.idx = some k → r[k]? = some c := by
  unfold uniqSortAll at h
  split at h
  · cases h
  next hc =>
    intro c hcm k hk
    have hI := sorted_indexed_idxAsc all hnd (noConflict_of_hasConflict_false (Bool.eq_false_iff.mpr hc))
    have hmem : c ∈ sortBy Color.idxLe (all.filter (·.idx.isSome)) :=
      (mem_sortBy _ _ _).mpr (List.mem_filter.mpr ⟨hcm, by simp [hk]⟩)
    simpa using fillSlots_indexed _ 0 _ _ _ hI h c hmem k hk

/-- **C15.4/5 top level**: reading the slots not claimed by an explicit index left to right gives the
unindexed colours in ascending (r,g,b,a) order followed only by black. -/
theorem uniqSortAll_free_slots (all r : List Color) (h : uniqSortAll all = .ok r) :
    r.filter (fun c => c.idx.isNone) =
      sortBy Color.rgbaLe (all.filter (·.idx.isNone)) ++
        List.replicate (max all.length (maxIdxP1 all) - (sortBy Color.idxLe (all.filter (·.idx.isSome))).length
          - (sortBy Color.rgbaLe (all.filter (·.idx.isNone))).length) Color.black := by
  unfold uniqSortAll at h
  split at h
  · cases h
  · apply fillSlots_free_slots _ 0 _ _ _ h
    · intro c hc; exact (List.mem_filter.mp ((mem_sortBy _ _ _).mp hc)).2
    · intro c hc; exact (List.mem_filter.mp ((mem_sortBy _ _ _).mp hc)).2

/-- the unindexed colours come out in ascending (r,g,b,a) order -/
theorem unindexed_ascending (all : List Color) :
    (sortBy Color.rgbaLe (all.filter (·.idx.isNone))).Pairwise (fun a b => Color.rgbaLe a b = true) :=
  sortBy_sorted _ rgbaLe_total rgbaLe_trans _

theorem mem_dedup (c : Color) : ∀ l, c ∈ dedup l ↔ c ∈ l
  | [] => by simp [dedup]
  | d :: l => by
    simp only [dedup]; split
    next h => rw [mem_dedup c l]; constructor
              · exact fun hc => List.mem_cons_of_mem _ hc
              · intro hc; rcases List.mem_cons.mp hc with rfl | hc
                · exact h
                · exact hc
    next h => simp only [List.mem_cons, mem_dedup c l]

theorem dedup_nodup : ∀ l, (dedup l).Nodup
  | [] => by simp [dedup]
  | d :: l => by
    simp only [dedup]; split
    · exact dedup_nodup l
    next h => exact List.nodup_cons.mpr ⟨fun hm => h ((mem_dedup d l).mp hm), dedup_nodup l⟩

theorem allColors_nodup (colors : List Color) : (allColors colors).Nodup := by
  unfold allColors; split
  · simp
  · exact dedup_nodup _

/-- **C15.6 / C08**: the palette depends only on the SET of colours — not on their order, not on repeats. -/
theorem uniqSortCpal_set_independent (l₁ l₂ : List Color) (h : ∀ c, c ∈ l₁ ↔ c ∈ l₂) :
    uniqSortCpal l₁ = uniqSortCpal l₂ := by
  unfold uniqSortCpal
  apply uniqSortAll_order_independent
  have hp : (dedup l₁).Perm (dedup l₂) := by
    apply (List.perm_ext_iff_of_nodup (dedup_nodup _) (dedup_nodup _)).mpr
    intro c; rw [mem_dedup, mem_dedup]; exact h c
  unfold allColors
  by_cases e1 : dedup l₁ = []
  · have e2 : dedup l₂ = [] := by
      have := hp.length_eq; rw [e1] at this; exact List.length_eq_zero_iff.mp this.symm
    simp [e1, e2]
  · have e2 : dedup l₂ ≠ [] := by
      intro e; apply e1
      have := hp.length_eq; rw [e] at this; exact List.length_eq_zero_iff.mp this
    simp [e1, e2, hp]

/-- **C15 top level totality**: `uniq_sort_cpal_colors` fails only by the index-conflict ValueError. -/
theorem uniqSortCpal_total (colors : List Color) (h : hasConflict (allColors colors) = false) :
    ∃ r, uniqSortCpal colors = .ok r :=
  uniqSortAll_total _ (allColors_nodup colors) h


end NanoVerif.C15
