import NanoVerif.Model.ClipBox
import NanoVerif.Proofs.Basic
import Mathlib.Tactic.NormNum
/- Helper lemmas for C05: min/max folds, control boxes, unions. -/
open NanoVerif
namespace NanoVerif.C05

theorem foldl_qmin_le (xs : List Q) (x : Q) : xs.foldl qmin x ≤ x ∧ ∀ y ∈ xs, xs.foldl qmin x ≤ y := by
  induction xs generalizing x with
  | nil => simp
  | cons z zs ih =>
    simp only [List.foldl_cons, List.mem_cons]
    have h := ih (qmin x z)
    rw [qmin_eq] at h ⊢
    refine ⟨le_trans h.1 (min_le_left _ _), ?_⟩
    rintro y (rfl | hy)
    · exact le_trans h.1 (min_le_right _ _)
    · exact h.2 y hy

theorem le_foldl_qmax (xs : List Q) (x : Q) : x ≤ xs.foldl qmax x ∧ ∀ y ∈ xs, y ≤ xs.foldl qmax x := by
  induction xs generalizing x with
  | nil => simp
  | cons z zs ih =>
    simp only [List.foldl_cons, List.mem_cons]
    have h := ih (qmax x z)
    rw [qmax_eq] at h ⊢
    refine ⟨le_trans (le_max_left _ _) h.1, ?_⟩
    rintro y (rfl | hy)
    · exact le_trans (le_max_right _ _) h.1
    · exact h.2 y hy

theorem listMin_le {l : List Q} {m : Q} (h : listMin l = some m) : ∀ y ∈ l, m ≤ y := by
  cases l with
  | nil => simp [listMin] at h
  | cons x xs =>
    simp only [listMin, Option.some.injEq] at h
    subst h
    intro y hy
    rcases List.mem_cons.mp hy with rfl | hy
    · exact (foldl_qmin_le xs _).1
    · exact (foldl_qmin_le xs x).2 y hy

theorem le_listMax {l : List Q} {m : Q} (h : listMax l = some m) : ∀ y ∈ l, y ≤ m := by
  cases l with
  | nil => simp [listMax] at h
  | cons x xs =>
    simp only [listMax, Option.some.injEq] at h
    subst h
    intro y hy
    rcases List.mem_cons.mp hy with rfl | hy
    · exact (le_foldl_qmax xs _).1
    · exact (le_foldl_qmax xs x).2 y hy


/-- the control box contains every control point -/
theorem controlBounds_contains {pts : List Pt} {b : Box} (h : controlBounds pts = some b) :
    ∀ p ∈ pts, b.Contains p := by
  unfold controlBounds at h
  split at h
  next a b' c d h1 h2 h3 h4 =>
    simp only [Option.some.injEq] at h
    subst h
    intro p hp
    exact ⟨listMin_le h1 _ (List.mem_map_of_mem hp), le_listMax h3 _ (List.mem_map_of_mem hp),
           listMin_le h2 _ (List.mem_map_of_mem hp), le_listMax h4 _ (List.mem_map_of_mem hp)⟩
  · cases h


theorem unionAll_none : ∀ {l : List (Option Box)}, unionAll l = none → ∀ b, some b ∉ l
  | [], _, b, hb => by simp at hb
  | none :: r, h, b, hb => by
    simp only [unionAll] at h
    have : some b ∈ r := by simpa using hb
    exact unionAll_none h b this
  | some b0 :: r, h, b, hb => by
    simp only [unionAll] at h
    split at h <;> cases h

theorem unionAll_sub : ∀ {l : List (Option Box)} {u : Box}, unionAll l = some u → ∀ b, some b ∈ l → b.Sub u
  | [], u, h, b, hb => by simp at hb
  | none :: r, u, h, b, hb => by
    simp only [unionAll] at h
    have : some b ∈ r := by simpa using hb
    exact unionAll_sub h b this
  | some b0 :: r, u, h, b, hb => by
    simp only [unionAll] at h
    split at h
    next hn =>
      cases h
      rcases List.mem_cons.mp hb with hb | hb
      · cases hb; exact ⟨le_refl _, le_refl _, le_refl _, le_refl _⟩
      · exact absurd hb (unionAll_none hn b)
    next b' hb' =>
      cases h
      rcases List.mem_cons.mp hb with hb | hb
      · cases hb
        simp only [Box.Sub, unionBox, qmin_eq, qmax_eq]
        exact ⟨min_le_left _ _, le_max_left _ _, min_le_left _ _, le_max_left _ _⟩
      · have := unionAll_sub hb' b hb
        simp only [Box.Sub, unionBox, qmin_eq, qmax_eq] at this ⊢
        exact ⟨le_trans (min_le_right _ _) this.1, le_trans this.2.1 (le_max_right _ _),
               le_trans (min_le_right _ _) this.2.2.1, le_trans this.2.2.2 (le_max_right _ _)⟩

theorem controlBounds_some_of_mem {pts : List Pt} {p : Pt} (hp : p ∈ pts) : ∃ b, controlBounds pts = some b := by
  cases pts with
  | nil => simp at hp
  | cons q qs => simp [controlBounds, listMin, listMax]


end NanoVerif.C05
