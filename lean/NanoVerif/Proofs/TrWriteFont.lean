import NanoVerif.Generated.TrWriteFont
import NanoVerif.Model.ClipBox
import NanoVerif.Proofs.PyRtLemmas
/-
Tie T: `_quantize_bounding_rect` as translated from the current write_font.py equals `quantizeRect`, the
model the C05 theorems (`quantize_outward`, `quantize_grid`, …) are about.
-/
namespace NanoVerif.TrProofs
open NanoVerif

/-- for every box and every factor ≥ 1 the translated function returns exactly the model's box -/
theorem quantize_eq (b : Box) (f : Nat) (hf : 1 ≤ f) :
    Tr.quantize_bounding_rect b.xMin b.yMin b.xMax b.yMax (f : Q) =
      .ok ((quantizeRect b f).xMin, (quantizeRect b f).yMin, (quantizeRect b f).xMax, (quantizeRect b f).yMax) := by
  have hf0 : (f : Q) ≠ 0 := by
    have : (1 : Q) ≤ (f : Q) := by exact_mod_cast hf
    intro h; rw [h] at this; exact absurd this (by norm_num)
  have hf1 : decide ((f : Q) ≥ 1) = true := by
    simp only [decide_eq_true_eq, ge_iff_le]; exact_mod_cast hf
  simp only [Tr.quantize_bounding_rect, Py.assert, hf1, Py.div, hf0, if_false, if_true, Py.floor, Py.ceil, quantizeRect,
    bind, Except.bind, pure, Except.pure, pyInt_mul_cast]

/-- `assert factor >= 1` -/
theorem quantize_rejects (x0 y0 x1 y1 f : Q) (hf : f < 1) :
    Tr.quantize_bounding_rect x0 y0 x1 y1 f = .error .assertFail := by
  have : decide (f ≥ 1) = false := by simp only [decide_eq_false_iff_not, ge_iff_le, not_le]; exact hf
  simp only [Tr.quantize_bounding_rect, Py.assert, this, bind, Except.bind]
  rfl

/-- the default clip-box step as translated from the current write_font.py is `round(upem / 50)` -/
theorem default_quantization_eq (c : Py.Config) :
    Tr.default_clipbox_quantization c = .ok ((defaultClipQuant c.upem : Int) : Q) := by
  simp only [Tr.default_clipbox_quantization, defaultClipQuant, Py.round, pure, Except.pure]
  have : mkQ 1 50 = (1 / 50 : Q) := by unfold mkQ; norm_num
  rw [this]

/-- 2048 → 41, 1024 → 20, 1000 → 20, 4096 → 82 (a floored upem // 50 would give 40 and 81) -/
example : defaultClipQuant 2048 = 41 ∧ defaultClipQuant 1024 = 20 ∧ defaultClipQuant 1000 = 20 ∧ defaultClipQuant 4096 = 82 := by decide +kernel

end NanoVerif.TrProofs
