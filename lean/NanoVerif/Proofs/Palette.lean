import NanoVerif.Model.Palette
import Mathlib.Tactic.Ring
import Mathlib.Tactic.Linarith
/- Inductions over the slot-filling loop of `uniq_sort_cpal_colors` (statements re-exported in Props/C15). -/
open NanoVerif
namespace NanoVerif.C15

theorem mem_insertBy (le : Color → Color → Bool) (c x : Color) (l : List Color) :
    x ∈ insertBy le c l ↔ x = c ∨ x ∈ l := by
  induction l with
  | nil => simp [insertBy]
  | cons d l ih =>
    simp only [insertBy]; split
    · simp
    · simp [ih]; tauto

theorem mem_sortBy (le : Color → Color → Bool) (x : Color) (l : List Color) : x ∈ sortBy le l ↔ x ∈ l := by
  induction l with
  | nil => simp [sortBy]
  | cons d l ih => simp [sortBy, mem_insertBy, ih]

theorem map_ok {α β} {f : α → β} {x : Except PErr α} {r : β} (h : x.map f = .ok r) :
    ∃ r', x = .ok r' ∧ r = f r' := by
  cases x with
  | error e => simp [Except.map] at h
  | ok v => simp [Except.map] at h; exact ⟨v, rfl, h.symm⟩

/-- P1: the palette has exactly `n` slots. -/
theorem fillSlots_length : ∀ (n i : Nat) (I U r : List Color), fillSlots i n I U = .ok r → r.length = n := by
  intro n
  induction n with
  | zero =>
    intro i I U r h
    cases I <;> cases U <;> simp [fillSlots] at h
    simp [h]
  | succ n ih =>
    intro i I U r h
    cases I with
    | nil =>
      cases U with
      | nil => simp [fillSlots] at h
      | cons u U' =>
        simp only [fillSlots] at h
        obtain ⟨r', h1, h2⟩ := map_ok h
        simp [h2, ih _ _ _ _ h1]
    | cons c I' =>
      simp only [fillSlots] at h
      split at h
      · obtain ⟨r', h1, h2⟩ := map_ok h
        simp [h2, ih _ _ _ _ h1]
      · cases U with
        | nil =>
          simp only at h
          obtain ⟨r', h1, h2⟩ := map_ok h
          simp [h2, ih _ _ _ _ h1]
        | cons u U' =>
          simp only at h
          obtain ⟨r', h1, h2⟩ := map_ok h
          simp [h2, ih _ _ _ _ h1]

/-- P2: every colour still in the deque ends up in the palette. -/
theorem fillSlots_mem : ∀ (n i : Nat) (I U r : List Color), fillSlots i n I U = .ok r →
    ∀ c, (c ∈ I ∨ c ∈ U) → c ∈ r := by
  intro n
  induction n with
  | zero =>
    intro i I U r h c hc
    cases I <;> cases U <;> simp [fillSlots] at h
    simp at hc
  | succ n ih =>
    intro i I U r h x hx
    cases I with
    | nil =>
      cases U with
      | nil => simp at hx
      | cons u U' =>
        simp only [fillSlots] at h
        obtain ⟨r', h1, h2⟩ := map_ok h
        subst h2
        simp only [List.not_mem_nil, false_or, List.mem_cons] at hx
        rcases hx with rfl | hx
        · simp
        · exact List.mem_cons_of_mem _ (ih _ _ _ _ h1 x (Or.inr hx))
    | cons c I' =>
      simp only [fillSlots] at h
      split at h
      · obtain ⟨r', h1, h2⟩ := map_ok h
        subst h2
        rcases hx with hx | hx
        · rcases List.mem_cons.mp hx with rfl | hx
          · simp
          · exact List.mem_cons_of_mem _ (ih _ _ _ _ h1 x (Or.inl hx))
        · exact List.mem_cons_of_mem _ (ih _ _ _ _ h1 x (Or.inr hx))
      · cases U with
        | nil =>
          simp only at h
          obtain ⟨r', h1, h2⟩ := map_ok h
          subst h2
          exact List.mem_cons_of_mem _ (ih _ _ _ _ h1 x hx)
        | cons u U' =>
          simp only at h
          obtain ⟨r', h1, h2⟩ := map_ok h
          subst h2
          rcases hx with hx | hx
          · exact List.mem_cons_of_mem _ (ih _ _ _ _ h1 x (Or.inl hx))
          · rcases List.mem_cons.mp hx with rfl | hx
            · simp
            · exact List.mem_cons_of_mem _ (ih _ _ _ _ h1 x (Or.inr hx))

/-- indexed part of the deque: strictly ascending indices, all `≥ i`. -/
def IdxAsc : Nat → List Color → Prop
  | _, [] => True
  | i, c :: I => ∃ k, c.idx = some k ∧ i ≤ k ∧ IdxAsc (k+1) I

theorem IdxAsc.mono {i j : Nat} (h : j ≤ i) : ∀ {I}, IdxAsc i I → IdxAsc j I
  | [], _ => trivial
  | _ :: _, ⟨k, hk, hik, hI⟩ => ⟨k, hk, le_trans h hik, hI⟩

theorem IdxAsc.mem_ge : ∀ {j I} {x : Color} {k : Nat}, IdxAsc j I → x ∈ I → x.idx = some k → j ≤ k
  | _, [], _, _, _, hx, _ => by simp at hx
  | j, d :: I, x, k, ⟨kd, hkd, hle, hI⟩, hx, hk => by
    rcases List.mem_cons.mp hx with rfl | hx
    · rw [hkd] at hk; cases hk; exact hle
    · have := IdxAsc.mem_ge hI hx hk; omega

/-- one more than the largest index in `I` (0 for the empty list) -/
def sup : List Color → Nat
  | [] => 0
  | c :: I => max (c.idx.getD 0 + 1) (sup I)

theorem sup_ge : ∀ {i I}, IdxAsc i I → I ≠ [] → i + I.length ≤ sup I
  | i, [c], ⟨k, hk, hik, _⟩, _ => by simp [sup, hk]; omega
  | i, c :: d :: I, ⟨k, hk, hik, hI⟩, _ => by
    have := sup_ge hI (by simp)
    simp only [sup, hk, Option.getD_some, List.length_cons] at this ⊢
    omega

/-- P3: an indexed colour sits at its index. -/
theorem fillSlots_indexed : ∀ (n i : Nat) (I U r : List Color), IdxAsc i I → fillSlots i n I U = .ok r →
    ∀ c ∈ I, ∀ k, c.idx = some k → r[k - i]? = some c := by
  intro n
  induction n with
  | zero =>
    intro i I U r _ h c hc
    cases I <;> cases U <;> simp [fillSlots] at h
    simp at hc
  | succ n ih =>
    intro i I U r hA h x hx k hk
    cases I with
    | nil => simp at hx
    | cons c I' =>
      obtain ⟨kc, hkc, hik, hI'⟩ := hA
      simp only [fillSlots] at h
      split at h
      next heq =>
        obtain ⟨r', h1, h2⟩ := map_ok h
        subst h2
        have : kc = i := by rw [hkc] at heq; simpa using heq
        subst this
        rcases List.mem_cons.mp hx with rfl | hx
        · rw [hkc] at hk; cases hk; simp
        · have hx' := ih _ _ _ _ hI' h1 x hx k hk
          have hge : kc + 1 ≤ k := IdxAsc.mem_ge hI' hx hk
          have e : k - kc = (k - (kc + 1)) + 1 := by omega
          rw [e, List.getElem?_cons_succ]; exact hx'
      next hne =>
        have hgt : i + 1 ≤ kc := by
          rcases Nat.lt_or_ge i kc with h' | h'
          · exact h'
          · exfalso; apply hne; rw [hkc]; congr; omega
        have hA' : IdxAsc (i+1) (c :: I') := ⟨kc, hkc, hgt, hI'⟩
        have hk1 : i + 1 ≤ k := by
          rcases List.mem_cons.mp hx with rfl | hx'
          · rw [hkc] at hk; cases hk; exact hgt
          · have : kc + 1 ≤ k := IdxAsc.mem_ge hI' hx' hk
            omega
        have e : k - i = (k - (i + 1)) + 1 := by omega
        cases U with
        | nil =>
          simp only at h
          obtain ⟨r', h1, h2⟩ := map_ok h
          subst h2
          rw [e, List.getElem?_cons_succ]; exact ih _ _ _ _ hA' h1 x hx k hk
        | cons u U' =>
          simp only at h
          obtain ⟨r', h1, h2⟩ := map_ok h
          subst h2
          rw [e, List.getElem?_cons_succ]; exact ih _ _ _ _ hA' h1 x hx k hk

/-- P4 (`never_pops_empty` + the final `assert not cpal_colors`): with exactly
`max(#colours, maxIndex+1)` slots the loop never reads an empty deque and ends with it empty. -/
theorem fillSlots_total : ∀ (n i : Nat) (I U : List Color), IdxAsc i I →
    i + n = max (i + I.length + U.length) (sup I) → ∃ r, fillSlots i n I U = .ok r := by
  intro n
  induction n with
  | zero =>
    intro i I U hA hn
    cases I with
    | nil => cases U with
      | nil => exact ⟨[], rfl⟩
      | cons u U' => simp [sup] at hn
    | cons c I' => simp at hn; omega
  | succ n ih =>
    intro i I U hA hn
    cases I with
    | nil =>
      cases U with
      | nil => simp [sup] at hn
      | cons u U' =>
        obtain ⟨r, hr⟩ := ih (i+1) [] U' trivial (by simp [sup] at hn ⊢; omega)
        exact ⟨u :: r, by simp [fillSlots, hr, Except.map]⟩
    | cons c I' =>
      obtain ⟨kc, hkc, hik, hI'⟩ := hA
      simp only [fillSlots]
      have hsup : sup (c :: I') = max (kc + 1) (sup I') := by simp [sup, hkc]
      split
      next heq =>
        have : kc = i := by rw [hkc] at heq; simpa using heq
        subst this
        have hn' : kc + 1 + n = max (kc + 1 + I'.length + U.length) (sup I') := by
          rw [hsup] at hn
          cases I' with
          | nil => simp [sup] at hn ⊢; omega
          | cons d I'' =>
            have := sup_ge hI' (by simp)
            simp only [List.length_cons] at hn this ⊢; omega
        obtain ⟨r, hr⟩ := ih (kc+1) I' U hI' hn'
        exact ⟨c :: r, by simp [hr, Except.map]⟩
      next hne =>
        have hgt : i + 1 ≤ kc := by
          rcases Nat.lt_or_ge i kc with h' | h'
          · exact h'
          · exfalso; apply hne; rw [hkc]; congr; omega
        have hA' : IdxAsc (i+1) (c :: I') := ⟨kc, hkc, hgt, hI'⟩
        have hs := sup_ge hA' (by simp)
        cases U with
        | nil =>
          obtain ⟨r, hr⟩ := ih (i+1) (c :: I') [] hA' (by
            simp only [List.length_cons, List.length_nil] at hn hs ⊢; omega)
          exact ⟨Color.black :: r, by simp [hr, Except.map]⟩
        | cons u U' =>
          obtain ⟨r, hr⟩ := ih (i+1) (c :: I') U' hA' (by
            simp only [List.length_cons] at hn hs ⊢; omega)
          exact ⟨u :: r, by simp [hr, Except.map]⟩

theorem fillSlots_size : ∀ (n i : Nat) (I U r : List Color), fillSlots i n I U = .ok r →
    I.length + U.length ≤ n := by
  intro n
  induction n with
  | zero =>
    intro i I U r h
    cases I <;> cases U <;> simp [fillSlots] at h
    simp
  | succ n ih =>
    intro i I U r h
    cases I with
    | nil =>
      cases U with
      | nil => simp
      | cons u U' =>
        simp only [fillSlots] at h
        obtain ⟨r', h1, _⟩ := map_ok h
        have := ih _ _ _ _ h1; simp at this ⊢; omega
    | cons c I' =>
      simp only [fillSlots] at h
      split at h
      · obtain ⟨r', h1, _⟩ := map_ok h
        have := ih _ _ _ _ h1; simp at this ⊢; omega
      · cases U with
        | nil =>
          simp only at h
          obtain ⟨r', h1, _⟩ := map_ok h
          have := ih _ _ _ _ h1; simp at this ⊢; omega
        | cons u U' =>
          simp only at h
          obtain ⟨r', h1, _⟩ := map_ok h
          have := ih _ _ _ _ h1; simp at this ⊢; omega

/-- P5: reading the slots not claimed by an explicit index from left to right gives the unindexed
colours in `pop()` order (ascending RGBA) followed only by black: unindexed colours fill the lowest
free slots, and every unfilled gap is black. -/
theorem fillSlots_free_slots : ∀ (n i : Nat) (I U r : List Color), fillSlots i n I U = .ok r →
    (∀ c ∈ I, c.idx.isSome) → (∀ u ∈ U, u.idx.isNone) →
    r.filter (fun c => c.idx.isNone) = U ++ List.replicate (n - I.length - U.length) Color.black := by
  intro n
  induction n with
  | zero =>
    intro i I U r h _ _
    cases I <;> cases U <;> simp [fillSlots] at h
    simp [h]
  | succ n ih =>
    intro i I U r h hI hU
    cases I with
    | nil =>
      cases U with
      | nil => simp [fillSlots] at h
      | cons u U' =>
        simp only [fillSlots] at h
        obtain ⟨r', h1, h2⟩ := map_ok h
        subst h2
        have hu : u.idx.isNone = true := hU u (by simp)
        have := ih _ _ _ _ h1 (by simp) (fun x hx => hU x (by simp [hx]))
        simp only [List.filter_cons, hu, ↓reduceIte, this, List.length_nil, List.length_cons, List.cons_append]
        congr 3; omega
    | cons c I' =>
      have hc : c.idx.isNone = false := by
        have := hI c (by simp); cases h' : c.idx <;> simp_all
      simp only [fillSlots] at h
      split at h
      · obtain ⟨r', h1, h2⟩ := map_ok h
        subst h2
        have := ih _ _ _ _ h1 (fun x hx => hI x (by simp [hx])) hU
        simp only [List.filter_cons, hc, Bool.false_eq_true, ↓reduceIte, this, List.length_cons]
        congr 3; omega
      · cases U with
        | nil =>
          simp only at h
          obtain ⟨r', h1, h2⟩ := map_ok h
          subst h2
          have hsz := fillSlots_size _ _ _ _ _ h1
          have := ih _ _ _ _ h1 hI hU
          have hb : Color.black.idx.isNone = true := rfl
          simp only [List.filter_cons, hb, ↓reduceIte, this, List.length_cons, List.length_nil, List.nil_append] at hsz ⊢
          rw [← List.replicate_succ]; congr 1; omega
        | cons u U' =>
          simp only at h
          obtain ⟨r', h1, h2⟩ := map_ok h
          subst h2
          have hu : u.idx.isNone = true := hU u (by simp)
          have := ih _ _ _ _ h1 hI (fun x hx => hU x (by simp [hx]))
          simp only [List.filter_cons, hu, ↓reduceIte, this, List.length_cons, List.cons_append]
          congr 3; omega

end NanoVerif.C15
