import NanoVerif.Generated.TrConfig
import NanoVerif.Model.Config
/-
Tie T: `config._pop_flag` as translated from the current config.py (with `config.pop(name, None)`,
`getattr(FLAGS, name)` and `getattr(_DEFAULT_CONFIG, name)` as opaque inputs) equals the model `popFlag`
the C10/C20 precedence theorem is about.
-/
namespace NanoVerif.TrProofs
open NanoVerif

theorem pop_flag_eq {α : Type} (file flag : Option α) (d : α) :
    Tr.pop_flag file flag (some d) = .ok (some (popFlag file flag d)) := by
  cases file <;> cases flag <;> rfl

end NanoVerif.TrProofs
