import NanoVerif.Model.Transformed
import NanoVerif.Proofs.Basic
import Mathlib.Tactic.NormNum
/- Helper lemmas for C16: one lemma per continuation of `paint.transformed`. -/
open NanoVerif Gen

namespace NanoVerif.C16

theorem gt_translate (dx dy : Q) : (Enc.translate dx dy).gettransform = ⟨1, 0, 0, 1, dx, dy⟩ := by
  simp [Enc.gettransform, Aff.translate, Aff.mul, Aff.id]
theorem gt_scale (sx sy : Q) : (Enc.scale sx sy).gettransform = ⟨sx, 0, 0, sy, 0, 0⟩ := by
  simp [Enc.gettransform, Aff.scale, Aff.mul, Aff.id]
theorem gt_scaleUniform (s : Q) : (Enc.scaleUniform s).gettransform = ⟨s, 0, 0, s, 0, 0⟩ := by
  simp [Enc.gettransform, Aff.scale, Aff.mul, Aff.id]
theorem gt_sac (sx sy cx cy : Q) :
    (Enc.scaleAroundCenter sx sy cx cy).gettransform = ⟨sx, 0, 0, sy, cx * (1 - sx), cy * (1 - sy)⟩ := by
  simp [Enc.gettransform, Aff.translate, Aff.scale, Aff.mul, Aff.id]
  constructor <;> ring
theorem gt_suac (s cx cy : Q) :
    (Enc.scaleUniformAroundCenter s cx cy).gettransform = ⟨s, 0, 0, s, cx * (1 - s), cy * (1 - s)⟩ := by
  simp [Enc.gettransform, Aff.translate, Aff.scale, Aff.mul, Aff.id]
  constructor <;> ring

/-- What "denotes" means for one encoding `e` of `t`. -/
def Denotes (e : Enc) (t : Aff) : Prop :=
  let g := e.gettransform
  g.a = t.a ∧ g.b = t.b ∧ g.c = t.c ∧ g.e = t.e ∧
  (e.isUniform = false → g.d = t.d ∧ g.f = t.f) ∧
  (e.isUniform = true → |g.d - t.d| ≤ tol ∧ |g.f - t.f| ≤ tol * |e.centerY|)

theorem k3_denotes (t : Aff) : Denotes (Transformed.k3 t) t := by
  simp [Denotes, Transformed.k3, Enc.gettransform, Enc.isUniform]

theorem center_eq {s d : Q} (h : (decide (1 = s) == decide (0 = d)) = true) :
    Transformed.center s d * (1 - s) = d := by
  unfold Transformed.center
  by_cases h1 : s = 1
  · subst h1; simp at h; subst h; simp
  · have : (1 - s) ≠ 0 := sub_ne_zero.mpr (Ne.symm h1)
    simp [h1]; field_simp

theorem kCenter2_denotes (t : Aff) (cx cy : Q) (hb : t.b = 0) (hc : t.c = 0)
    (ex : cx * (1 - t.a) = t.e) (ey : cy * (1 - t.d) = t.f) : Denotes (Transformed.kCenter2 t cx cy) t := by
  unfold Transformed.kCenter2
  split
  · split
    next hu =>
      rw [almostEq_iff] at hu
      refine ⟨?_, ?_, ?_, ?_, ?_, ?_⟩ <;> simp [gt_suac, Enc.isUniform, Enc.centerY, hb, hc, ex]
      constructor
      · exact hu
      · rw [← ey]
        have : cy * (1 - t.a) - cy * (1 - t.d) = (t.d - t.a) * cy := by ring
        rw [this, abs_mul, abs_sub_comm]
        exact mul_le_mul_of_nonneg_right hu (abs_nonneg _)
    next hu =>
      refine ⟨?_, ?_, ?_, ?_, ?_, ?_⟩ <;> simp [gt_sac, Enc.isUniform, Enc.centerY, hb, hc, ex, ey]
  · exact k3_denotes t

theorem kCenter_denotes (t : Aff) (hb : t.b = 0) (hc : t.c = 0) : Denotes (Transformed.kCenter t) t := by
  unfold Transformed.kCenter
  split
  next h =>
    simp only [Bool.and_eq_true] at h
    exact kCenter2_denotes t _ _ hb hc (center_eq h.1) (center_eq h.2)
  · exact k3_denotes t

theorem k2_denotes (t : Aff) : Denotes (Transformed.k2 t) t := by
  unfold Transformed.k2
  simp only
  split
  next h =>
    obtain ⟨_, ⟨hb, hc⟩, _⟩ := h
    split
    next h0 =>
      split
      next hu =>
        rw [almostEq_iff] at hu
        refine ⟨?_, ?_, ?_, ?_, ?_, ?_⟩ <;> simp [gt_scaleUniform, Enc.isUniform, Enc.centerY, hb, hc, h0.1, h0.2]
        exact hu
      next hu =>
        refine ⟨?_, ?_, ?_, ?_, ?_, ?_⟩ <;> simp [gt_scale, Enc.isUniform, hb, hc, h0.1, h0.2]
    · exact kCenter_denotes t hb hc
  · exact k3_denotes t

theorem k1_denotes (t : Aff) : Denotes (Transformed.k1 t) t := by
  unfold Transformed.k1
  split
  next h =>
    split
    · have h2 := h.2
      have ha : t.a = 1 := by rw [← h2]; simp [Aff.translate, Aff.mul, Aff.id]
      have hb : t.b = 0 := by rw [← h2]; simp [Aff.translate, Aff.mul, Aff.id]
      have hc : t.c = 0 := by rw [← h2]; simp [Aff.translate, Aff.mul, Aff.id]
      have hd : t.d = 1 := by rw [← h2]; simp [Aff.translate, Aff.mul, Aff.id]
      refine ⟨?_, ?_, ?_, ?_, ?_, ?_⟩ <;> simp [gt_translate, Enc.isUniform, ha, hb, hc, hd]
    · exact k2_denotes t
  · exact k2_denotes t


/-- OpenType field ranges, written out from the spec (independent of `fixed.py`). -/
def Spec.int16 (v : Q) : Prop := -32768 ≤ v ∧ v ≤ 32767
def Spec.nearInt (v : Q) : Prop :=
  |v - ⌊v⌋| ≤ 1 / 1000000000 + 1/10000000000000000 ∨ |v - ⌈v⌉| ≤ 1 / 1000000000 + 1/10000000000000000
def Spec.f2dot14 (v : Q) : Prop := -2 ≤ v ∧ v ≤ 2 - 1 / 16384

def InRange : Enc → Prop
  | .none => True
  | .translate dx dy => Spec.int16 dx ∧ Spec.int16 dy ∧ Spec.nearInt dx ∧ Spec.nearInt dy
  | .scaleUniform s => Spec.f2dot14 s
  | .scale sx sy => Spec.f2dot14 sx ∧ Spec.f2dot14 sy
  | .scaleUniformAroundCenter s cx cy => Spec.f2dot14 s ∧ Spec.int16 cx ∧ Spec.int16 cy ∧ Spec.nearInt cx ∧ Spec.nearInt cy
  | .scaleAroundCenter sx sy cx cy => Spec.f2dot14 sx ∧ Spec.f2dot14 sy ∧ Spec.int16 cx ∧ Spec.int16 cy ∧ Spec.nearInt cx ∧ Spec.nearInt cy
  | .transform _ => True

theorem int16Safe1_spec {v : Q} (h : int16Safe1 v = true) : Spec.int16 v ∧ Spec.nearInt v := by
  simp only [int16Safe1, Bool.and_eq_true, decide_eq_true_eq, almostEq_iff] at h
  obtain ⟨⟨h1, h2⟩, h3⟩ := h
  refine ⟨⟨?_, ?_⟩, ?_⟩
  · have : MIN_INT16 = -32768 := by norm_num [MIN_INT16, mkQ_eq]
    rw [this] at h2; exact h2
  · have : MAX_INT16 = 32767 := by norm_num [MAX_INT16, mkQ_eq]
    rw [this] at h3; exact h3
  · have ht : tol ≤ 1 / 1000000000 + 1/10000000000000000 := by norm_num [tol, ALMOST_EQUAL_TOL, mkQ_eq]
    unfold pyInt at h1
    split at h1
    · left; rw [floor_eq] at h1; exact le_trans h1 ht
    · right; rw [qceil_eq] at h1; exact le_trans h1 ht

theorem f2dot14Safe1_spec {v : Q} (h : f2dot14Safe1 v = true) : Spec.f2dot14 v := by
  simp only [f2dot14Safe1, Bool.and_eq_true, decide_eq_true_eq] at h
  constructor
  · have : MIN_F2DOT14 = -2 := by norm_num [MIN_F2DOT14, mkQ_eq]
    rw [this] at h; exact h.1
  · have : MAX_F2DOT14 = 2 - 1/16384 := by norm_num [MAX_F2DOT14, mkQ_eq]
    rw [this] at h; exact h.2


end NanoVerif.C16
