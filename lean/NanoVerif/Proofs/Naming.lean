import NanoVerif.Model.Naming
import Mathlib.Tactic.Ring
/-
Hex printing / parsing are inverse; code point names and glyph names are injective (as long as no name
had to be hashed).
-/
namespace NanoVerif

theorem foldl_hex (l : List Char) : ∀ (a : Nat),
    l.foldl (fun acc c => acc * 16 + hexVal c) a = a * 16 ^ l.length + l.foldl (fun acc c => acc * 16 + hexVal c) 0 := by
  induction l with
  | nil => intro a; simp
  | cons c l ih =>
    intro a
    simp only [List.foldl_cons, List.length_cons]
    rw [ih (a * 16 + hexVal c), ih (0 * 16 + hexVal c)]
    rw [Nat.pow_succ]
    simp only [Nat.zero_mul, Nat.zero_add]
    rw [Nat.add_mul, Nat.mul_assoc, Nat.mul_comm 16 (16 ^ l.length)]
    omega

theorem parseHex_cons (c : Char) (l : List Char) : parseHex (c :: l) = hexVal c * 16 ^ l.length + parseHex l := by
  unfold parseHex
  simp only [List.foldl_cons]
  rw [foldl_hex l (0 * 16 + hexVal c)]
  simp

theorem hexVal_hexDigit (n : Nat) (h : n < 16) : hexVal (hexDigit n) = n := by
  have : ∀ k, k < 16 → hexVal (hexDigit k) = k := by decide
  exact this n h

theorem isHex_hexDigit (n : Nat) (h : n < 16) : isHex (hexDigit n) = true := by
  have : ∀ k, k < 16 → isHex (hexDigit k) = true := by decide
  exact this n h

theorem parseHex_toHexAux : ∀ (fuel n : Nat) (acc : List Char), n < 16 ^ fuel →
    parseHex (toHexAux fuel n acc) = n * 16 ^ acc.length + parseHex acc
  | 0, n, acc, h => by
    have : n = 0 := by simpa using h
    subst this
    simp [toHexAux]
  | fuel+1, n, acc, h => by
    simp only [toHexAux]
    split
    next hn => rw [parseHex_cons, hexVal_hexDigit n hn]
    next hn =>
      have hdiv : n / 16 < 16 ^ fuel := by
        rw [Nat.pow_succ] at h
        exact Nat.div_lt_of_lt_mul (by rw [Nat.mul_comm]; exact h)
      rw [parseHex_toHexAux fuel (n / 16) _ hdiv, parseHex_cons, hexVal_hexDigit _ (Nat.mod_lt _ (by decide))]
      simp only [List.length_cons, Nat.pow_succ]
      have hdm := Nat.div_add_mod n 16
      generalize 16 ^ acc.length = p
      generalize parseHex acc = q
      generalize n / 16 = d at hdm
      generalize n % 16 = r at hdm
      subst hdm
      ring

/-- `int("%x" % n, 16) == n` -/
theorem parseHex_toHex (n : Nat) (h : n < 16 ^ 16) : parseHex (toHex n) = n := by
  unfold toHex
  rw [parseHex_toHexAux 16 n [] h]
  simp [parseHex]

theorem toHex_injective {a b : Nat} (ha : a < 16 ^ 16) (hb : b < 16 ^ 16) (h : toHex a = toHex b) : a = b := by
  rw [← parseHex_toHex a ha, ← parseHex_toHex b hb, h]

/-- zero padding (`"%04x"`) does not change the value -/
theorem parseHex_zeros (k : Nat) (l : List Char) : parseHex (List.replicate k '0' ++ l) = parseHex l := by
  induction k with
  | zero => simp
  | succ k ih =>
    rw [List.replicate_succ, List.cons_append, parseHex_cons, ih]
    have : hexVal '0' = 0 := by decide
    simp [this]

theorem parseHex_hex4 (n : Nat) (h : n < 16 ^ 16) : parseHex (hex4 n) = n := by
  unfold hex4
  rw [parseHex_zeros, parseHex_toHex n h]

/-! ### injectivity of names -/

theorem toHexAux_isHex : ∀ (fuel n : Nat) (acc : List Char), (∀ c ∈ acc, isHex c = true) →
    ∀ c ∈ toHexAux fuel n acc, isHex c = true
  | 0, _, acc, h => h
  | fuel+1, n, acc, h => by
    simp only [toHexAux]; split
    next hn =>
      intro c hc
      rcases List.mem_cons.mp hc with rfl | hc
      · exact isHex_hexDigit n hn
      · exact h c hc
    · apply toHexAux_isHex fuel
      intro c hc
      rcases List.mem_cons.mp hc with rfl | hc
      · exact isHex_hexDigit _ (Nat.mod_lt _ (by decide))
      · exact h c hc

theorem toHex_isHex (n : Nat) : ∀ c ∈ toHex n, isHex c = true := toHexAux_isHex 16 n [] (by simp)

theorem toHexAux_len_ge : ∀ (fuel n : Nat) (acc : List Char), acc.length ≤ (toHexAux fuel n acc).length
  | 0, _, _ => by simp [toHexAux]
  | fuel+1, n, acc => by
    simp only [toHexAux]; split
    · simp
    · have := toHexAux_len_ge fuel (n / 16) (hexDigit (n % 16) :: acc)
      simp only [List.length_cons] at this
      omega

theorem toHexAux_len_gt (fuel n : Nat) (acc : List Char) : acc.length + 1 ≤ (toHexAux (fuel + 1) n acc).length := by
  simp only [toHexAux]; split
  · simp
  · have := toHexAux_len_ge fuel (n / 16) (hexDigit (n % 16) :: acc)
    simpa using this

theorem toHex_ne_nil (n : Nat) : toHex n ≠ [] := by
  have := toHexAux_len_gt 15 n []
  intro h
  unfold toHex at h
  rw [h] at this
  simp at this

theorem toHexAux_len_two (fuel n : Nat) (acc : List Char) (h : 16 ≤ n) : acc.length + 2 ≤ (toHexAux (fuel + 2) n acc).length := by
  rw [toHexAux, if_neg (by omega)]
  have := toHexAux_len_gt fuel (n / 16) (hexDigit (n % 16) :: acc)
  simpa using this

theorem toHex_len_two (n : Nat) (h : 16 ≤ n) : 2 ≤ (toHex n).length := by
  have := toHexAux_len_two 14 n [] h
  simpa [toHex] using this

def NoU (x : List Char) : Prop := ∀ c ∈ x, c ≠ '_'

theorem isHex_noU {x : List Char} (h : ∀ c ∈ x, isHex c = true) : NoU x := by
  intro c hc hcc
  have := h c hc
  rw [hcc] at this
  revert this
  decide

theorem ofNat_toNat_small (k : Nat) (h : k < 128) : (Char.ofNat k).toNat = k := by
  have : ∀ j, j < 128 → (Char.ofNat j).toNat = j := by decide
  exact this k h

theorem letter_lt {k : Nat} (h : isAsciiLetter k = true) : k < 128 := by
  simp only [isAsciiLetter, Bool.or_eq_true, Bool.and_eq_true, decide_eq_true_eq] at h
  omega

theorem cpName_noU (cp : Nat) : NoU (cpName cp) := by
  unfold cpName; split
  next h =>
    intro c hc hcc
    simp only [List.mem_singleton] at hc
    have h1 := ofNat_toNat_small cp (letter_lt h)
    rw [← hc, hcc] at h1
    have : cp = 95 := by rw [← h1]; decide
    subst this
    revert h
    decide
  · exact isHex_noU (toHex_isHex cp)

theorem cpName_ne_nil (cp : Nat) : cpName cp ≠ [] := by
  unfold cpName; split
  · simp
  · exact toHex_ne_nil cp

/-- distinct code points above U+0020 get distinct names -/
theorem cpName_injective {a b : Nat} (ha : 0x20 < a) (hb : 0x20 < b) (ha' : a < 0x110000) (hb' : b < 0x110000)
    (h : cpName a = cpName b) : a = b := by
  unfold cpName at h
  split at h <;> split at h
  next la lb =>
    simp only [List.cons.injEq, and_true] at h
    rw [← ofNat_toNat_small a (letter_lt la), ← ofNat_toNat_small b (letter_lt lb), h]
  next la lb =>
    have := toHex_len_two b (by omega)
    rw [← h] at this
    simp at this
  next la lb =>
    have := toHex_len_two a (by omega)
    rw [h] at this
    simp at this
  next la lb =>
    exact toHex_injective (by omega) (by omega) h

theorem split_unique : ∀ (x y r r' : List Char), NoU x → NoU y → x ++ '_' :: r = y ++ '_' :: r' → x = y ∧ r = r'
  | [], [], r, r', _, _, h => by simpa using h
  | [], c :: y, r, r', _, hy, h => by
    simp only [List.nil_append, List.cons_append, List.cons.injEq] at h
    exact absurd h.1.symm (hy c (by simp))
  | c :: x, [], r, r', hx, _, h => by
    simp only [List.nil_append, List.cons_append, List.cons.injEq] at h
    exact absurd h.1 (hx c (by simp))
  | c :: x, d :: y, r, r', hx, hy, h => by
    simp only [List.cons_append, List.cons.injEq] at h
    obtain ⟨h1, h2⟩ := split_unique x y r r' (fun z hz => hx z (by simp [hz])) (fun z hz => hy z (by simp [hz])) h.2
    exact ⟨by rw [h.1, h1], h2⟩

theorem no_split {x y r : List Char} (hx : NoU x) : x ≠ y ++ '_' :: r := by
  intro h
  exact hx '_' (by rw [h]; simp) rfl

theorem joinU_cons2 (x y : List Char) (r : List (List Char)) : joinU (x :: y :: r) = x ++ '_' :: joinU (y :: r) := rfl

theorem joinU_injective : ∀ (l1 l2 : List (List Char)), (∀ x ∈ l1, NoU x ∧ x ≠ []) → (∀ x ∈ l2, NoU x ∧ x ≠ []) →
    joinU l1 = joinU l2 → l1 = l2
  | [], [], _, _, _ => rfl
  | [], [y], _, h2, h => by
    simp only [joinU] at h
    exact absurd h.symm (h2 y (by simp)).2
  | [], y :: y2 :: r, _, _, h => by
    rw [joinU_cons2] at h
    simp [joinU] at h
  | [x], [], h1, _, h => by
    simp only [joinU] at h
    exact absurd h (h1 x (by simp)).2
  | x :: x2 :: r, [], _, _, h => by
    rw [joinU_cons2] at h
    simp [joinU] at h
  | [x], [y], _, _, h => by
    simp only [joinU] at h
    rw [h]
  | [x], y :: y2 :: r, h1, _, h => by
    rw [joinU_cons2] at h
    simp only [joinU] at h
    exact absurd h (no_split (h1 x (by simp)).1)
  | x :: x2 :: r, [y], _, h2, h => by
    rw [joinU_cons2] at h
    simp only [joinU] at h
    exact absurd h.symm (no_split (h2 y (by simp)).1)
  | x :: x2 :: r, y :: y2 :: r', h1, h2, h => by
    rw [joinU_cons2, joinU_cons2] at h
    obtain ⟨hxy, hr⟩ := split_unique x y _ _ (h1 x (by simp)).1 (h2 y (by simp)).1 h
    have ih := joinU_injective (x2 :: r) (y2 :: r') (fun z hz => h1 z (by simp [hz])) (fun z hz => h2 z (by simp [hz])) hr
    rw [hxy, ih]

theorem map_cpName_injective : ∀ (l1 l2 : List Nat), (∀ cp ∈ l1, 0x20 < cp ∧ cp < 0x110000) → (∀ cp ∈ l2, 0x20 < cp ∧ cp < 0x110000) →
    l1.map cpName = l2.map cpName → l1 = l2
  | [], [], _, _, _ => rfl
  | [], _ :: _, _, _, h => by simp at h
  | _ :: _, [], _, _, h => by simp at h
  | a :: l1, b :: l2, h1, h2, h => by
    simp only [List.map_cons, List.cons.injEq] at h
    have hab := cpName_injective (h1 a (by simp)).1 (h2 b (by simp)).1 (h1 a (by simp)).2 (h2 b (by simp)).2 h.1
    have := map_cpName_injective l1 l2 (fun z hz => h1 z (by simp [hz])) (fun z hz => h2 z (by simp [hz])) h.2
    rw [hab, this]

/-- the un-prefixed, un-hashed name determines the sequence -/
theorem rawName_injective (l1 l2 : List Nat) (h1 : ∀ cp ∈ l1, 0x20 < cp ∧ cp < 0x110000) (h2 : ∀ cp ∈ l2, 0x20 < cp ∧ cp < 0x110000)
    (h : joinU (l1.map cpName) = joinU (l2.map cpName)) : l1 = l2 := by
  apply map_cpName_injective l1 l2 h1 h2
  apply joinU_injective _ _ _ _ h
  · intro x hx
    obtain ⟨cp, _, rfl⟩ := List.mem_map.mp hx
    exact ⟨cpName_noU cp, cpName_ne_nil cp⟩
  · intro x hx
    obtain ⟨cp, _, rfl⟩ := List.mem_map.mp hx
    exact ⟨cpName_noU cp, cpName_ne_nil cp⟩

/-- **glyph names of distinct sequences are distinct** (sequences over scalar values above U+0020 whose name
fits in MAX_NAME_LEN characters, i.e. is not replaced by a hash) -/
theorem glyphName_injective (H : List Char → List Char) (l1 l2 : List Nat)
    (h1 : ∀ cp ∈ l1, 0x20 < cp ∧ cp < 0x110000) (h2 : ∀ cp ∈ l2, 0x20 < cp ∧ cp < 0x110000)
    (s1 : ¬ (joinU (l1.map cpName)).length > Gen.MAX_NAME_LEN) (s2 : ¬ (joinU (l2.map cpName)).length > Gen.MAX_NAME_LEN)
    (h : glyphName H l1 = glyphName H l2) : l1 = l2 := by
  apply rawName_injective l1 l2 h1 h2
  unfold glyphName at h
  simp only [if_neg s1, if_neg s2] at h
  generalize joinU (l1.map cpName) = r1 at h
  generalize joinU (l2.map cpName) = r2 at h
  cases r1 with
  | nil =>
    cases r2 with
    | nil => rfl
    | cons d r2 => simp only at h; split at h <;> simp at h
  | cons c r1 =>
    cases r2 with
    | nil => simp only at h; split at h <;> simp at h
    | cons d r2 =>
      simp only at h
      split at h <;> split at h
      · simpa using h
      · rename_i hp _
        simp only [Option.some.injEq] at h
        rw [h] at hp
        simp at hp
      · rename_i _ hp
        simp only [Option.some.injEq] at h
        rw [← h] at hp
        simp at hp
      · simpa using h

/-! ### code points are recovered from Noto-style file names -/

theorem takeWhile_hex_append : ∀ (h r : List Char), (∀ c ∈ h, isHex c = true) → (∀ c, r.head? = some c → isHex c = false) →
    (h ++ r).takeWhile isHex = h ∧ (h ++ r).dropWhile isHex = r
  | [], r, _, hr => by
    cases r with
    | nil => simp
    | cons c r => simp [hr c rfl]
  | c :: h, r, hh, hr => by
    have ih := takeWhile_hex_append h r (fun z hz => hh z (by simp [hz])) hr
    have hc := hh c (by simp)
    simp [hc, ih.1, ih.2]

/-- what follows the first group: `_` + hex for every further code point -/
def tailStr : List Nat → List Char
  | [] => []
  | c :: cs => '_' :: (toHex c ++ tailStr cs)

theorem joinU_toHex (c : Nat) (cs : List Nat) : joinU ((c :: cs).map toHex) = toHex c ++ tailStr cs := by
  induction cs generalizing c with
  | nil => simp [joinU, tailStr]
  | cons d cs ih =>
    simp only [List.map_cons] at ih ⊢
    rw [joinU_cons2, ih d]
    simp [tailStr]

theorem toHex_head_hex (n : Nat) : ∃ c r, toHex n = c :: r ∧ isHex c = true := by
  cases h : toHex n with
  | nil => exact absurd h (toHex_ne_nil n)
  | cons c r => exact ⟨c, r, rfl, toHex_isHex n c (by rw [h]; simp)⟩

theorem isHex_not_sep {c : Char} (h : isHex c = true) : ¬ (c = '-' ∨ c = '_') := by
  rintro (rfl | rfl) <;> revert h <;> decide

theorem tailStr_head (cs : List Nat) (ext : List Char) (hext : ∀ c, ext.head? = some c → isHex c = false) :
    ∀ c, (tailStr cs ++ ext).head? = some c → isHex c = false := by
  cases cs with
  | nil => simpa [tailStr] using hext
  | cons d cs =>
    intro c hc
    simp only [tailStr, List.cons_append, List.head?_cons, Option.some.injEq] at hc
    subst hc
    decide

/-- the greedy group scanner returns exactly the printed code points -/
theorem hexGroups_tail : ∀ (cs : List Nat) (fuel : Nat) (ext : List Char), cs.length < fuel →
    (∀ c, ext.head? = some c → isHex c = false ∧ c ≠ '-' ∧ c ≠ '_') →
    hexGroups fuel (tailStr cs ++ ext) = cs.map toHex
  | [], fuel+1, ext, _, hext => by
    simp only [tailStr, List.nil_append, List.map_nil, hexGroups]
    cases ext with
    | nil => simp
    | cons c r =>
      obtain ⟨h1, h2, h3⟩ := hext c rfl
      simp [h2, h3, h1]
  | c :: cs, fuel+1, ext, hf, hext => by
    obtain ⟨d, r, hd, hdh⟩ := toHex_head_hex c
    have hstrip : hexGroups (fuel + 1) (tailStr (c :: cs) ++ ext) =
        (let run := (toHex c ++ (tailStr cs ++ ext)).takeWhile isHex
         if run = [] then [] else run :: hexGroups fuel ((toHex c ++ (tailStr cs ++ ext)).dropWhile isHex)) := by
      simp only [tailStr, List.cons_append, hexGroups, List.append_assoc]
      rw [hd]
      simp [hdh]
    rw [hstrip]
    obtain ⟨ht, hdw⟩ := takeWhile_hex_append (toHex c) (tailStr cs ++ ext) (toHex_isHex c)
      (tailStr_head cs ext (fun x hx => (hext x hx).1))
    simp only [ht, hdw, toHex_ne_nil c, if_false, List.map_cons]
    rw [hexGroups_tail cs fuel ext (by simp at hf; omega) hext]

theorem hexGroups_joined (c : Nat) (cs : List Nat) (fuel : Nat) (ext : List Char) (hf : cs.length < fuel)
    (hext : ∀ x, ext.head? = some x → isHex x = false ∧ x ≠ '-' ∧ x ≠ '_') :
    hexGroups (fuel + 1) (joinU ((c :: cs).map toHex) ++ ext) = (c :: cs).map toHex := by
  rw [joinU_toHex]
  obtain ⟨d, r, hd, hdh⟩ := toHex_head_hex c
  have hns := isHex_not_sep hdh
  have hstrip : hexGroups (fuel + 1) (toHex c ++ tailStr cs ++ ext) =
      (let run := (toHex c ++ (tailStr cs ++ ext)).takeWhile isHex
       if run = [] then [] else run :: hexGroups fuel ((toHex c ++ (tailStr cs ++ ext)).dropWhile isHex)) := by
    simp only [hexGroups, List.append_assoc]
    rw [hd]
    simp [hns]
  rw [hstrip]
  obtain ⟨ht, hdw⟩ := takeWhile_hex_append (toHex c) (tailStr cs ++ ext) (toHex_isHex c)
    (tailStr_head cs ext (fun x hx => (hext x hx).1))
  simp only [ht, hdw, toHex_ne_nil c, if_false, List.map_cons]
  rw [hexGroups_tail cs fuel ext hf hext]

theorem map_parse_toHex : ∀ (l : List Nat), (∀ n ∈ l, n < 16 ^ 16) → (l.map toHex).map parseHex = l
  | [], _ => rfl
  | n :: l, h => by
    simp only [List.map_cons]
    rw [parseHex_toHex n (h n (by simp)), map_parse_toHex l (fun z hz => h z (by simp [hz]))]

theorem length_tailStr_ge : ∀ (cs : List Nat), cs.length ≤ (tailStr cs).length
  | [] => by simp [tailStr]
  | c :: cs => by
    have := length_tailStr_ge cs
    simp only [tailStr, List.length_cons, List.length_append]
    omega

/-- **file names**: `emoji_u` + lowercase hex code points joined by `_` + an extension → exactly those code points -/
theorem fromFilename_recovers (c : Nat) (cs : List Nat) (ext : List Char) (hlt : ∀ n ∈ c :: cs, n < 16 ^ 16)
    (hext : ∀ x, ext.head? = some x → isHex x = false ∧ x ≠ '-' ∧ x ≠ '_') :
    fromFilename ("emoji_u".toList ++ (joinU ((c :: cs).map toHex) ++ ext)) = some (c :: cs) := by
  unfold fromFilename
  have hpre : startsWith "emoji_u".toList ("emoji_u".toList ++ (joinU ((c :: cs).map toHex) ++ ext)) = true := by
    simp [startsWith]
  have hdrop : ("emoji_u".toList ++ (joinU ((c :: cs).map toHex) ++ ext)).drop "emoji_u".toList.length =
      joinU ((c :: cs).map toHex) ++ ext := by simp
  simp only [hpre, if_true, hdrop]
  have hlen : cs.length < (joinU ((c :: cs).map toHex) ++ ext).length := by
    rw [joinU_toHex]
    have h1 := length_tailStr_ge cs
    have h2 : 1 ≤ (toHex c).length := by
      cases h : toHex c with
      | nil => exact absurd h (toHex_ne_nil c)
      | cons _ _ => simp
    simp only [List.length_append]
    omega
  rw [hexGroups_joined c cs _ ext hlen hext]
  simp only [List.map_cons, List.cons_ne_nil, if_false]
  have := map_parse_toHex (c :: cs) hlt
  simp only [List.map_cons] at this
  rw [this]

end NanoVerif
