import NanoVerif.Model.ReuseSeq
import NanoVerif.Proofs.Sem
/-
Invariant of the glyph cache across a font (for every oracle `between`, tolerance and input order):
after a PaintGlyph has been migrated, the cache entry of ITS normal form is the outline it was painted with.
-/
namespace NanoVerif
open Gen

theorem outline_wrap (T : Aff) (p : SPaint) : (wrap T p).outline = p.outline := by
  unfold wrap; split <;> simp [SPaint.outline]

/-- whatever `migrateReuse` answers refers to the donor it was given -/
theorem migrateReuse_outline (T : Aff) (d : Nat) (child p : SPaint) (h : migrateReuse T d child = some p) :
    p.outline = some d := by
  unfold migrateReuse at h
  split at h
  · unfold migrateGradient at h
    simp only at h
    split at h
    · cases h; simp [outline_wrap, SPaint.outline]
    · cases h
  · cases h; simp [outline_wrap, SPaint.outline]

theorem tryReuse_fst (tol : Q) (d g : Nat) (o : Option Aff) (T : Aff)
    (h : tryReuse tol (o.map (fun t => (d, t))) = some (g, T)) : g = d ∧ o = some T ∧ tol ≠ -1 ∧ fixedSafe T.toList = true := by
  unfold tryReuse at h
  split at h
  · cases h
  · rename_i htol
    cases o with
    | none => simp at h
    | some t =>
      simp only [Option.map_some] at h
      split at h
      · rename_i hs
        cases h
        exact ⟨rfl, rfl, htol, hs⟩
      · cases h

@[simp] theorem lookup_add_same (c : Cache) (k g : Nat) : (c.add k g).lookup k = some g := by
  simp [Cache.add, Cache.lookup]

theorem lookup_add_ne (c : Cache) (k k' g : Nat) (h : k ≠ k') : (c.add k g).lookup k' = c.lookup k' := by
  simp [Cache.add, Cache.lookup, h]

/-- **the invariant, one step**: the entry of the shape's own normal form is the outline its paint refers to -/
theorem step_registers (tol : Q) (between : Nat → ShapeIn → Option Aff) (st : MState) (s : ShapeIn) :
    (migrateStep tol between st s).1.cache.lookup s.key = (migrateStep tol between st s).2.outline := by
  unfold migrateStep
  cases hl : st.cache.lookup s.key with
  | none => simp [drawFresh, SPaint.outline]
  | some donor =>
    simp only
    cases ht : tryReuse tol ((between donor s).map (fun t => (donor, t))) with
    | none => simp [drawFresh, SPaint.outline]
    | some gt =>
      obtain ⟨g, T⟩ := gt
      obtain ⟨rfl, _, _, _⟩ := tryReuse_fst tol donor g (between donor s) T ht
      simp only
      cases hm : migrateReuse T g s.child with
      | none => simp [drawFresh, SPaint.outline]
      | some p => simp [hl, migrateReuse_outline T g s.child p hm]

/-- a shape with another normal form leaves the entry alone -/
theorem step_other_key (tol : Q) (between : Nat → ShapeIn → Option Aff) (st : MState) (s : ShapeIn) (k : Nat)
    (h : s.key ≠ k) : (migrateStep tol between st s).1.cache.lookup k = st.cache.lookup k := by
  unfold migrateStep
  cases st.cache.lookup s.key with
  | none => simp [drawFresh, lookup_add_ne _ _ _ _ h]
  | some donor =>
    simp only
    cases tryReuse tol ((between donor s).map (fun t => (donor, t))) with
    | none => simp [drawFresh, lookup_add_ne _ _ _ _ h]
    | some gt =>
      obtain ⟨g, T⟩ := gt
      simp only
      cases migrateReuse T g s.child with
      | none => simp [drawFresh, lookup_add_ne _ _ _ _ h]
      | some p => rfl

theorem all_other_keys (tol : Q) (between : Nat → ShapeIn → Option Aff) (k : Nat) :
    ∀ (mid : List ShapeIn) (st : MState), (∀ s ∈ mid, s.key ≠ k) →
      (migrateAll tol between st mid).1.cache.lookup k = st.cache.lookup k
  | [], st, _ => rfl
  | s :: r, st, h => by
    simp only [migrateAll]
    rw [all_other_keys tol between k r _ (fun x hx => h x (List.mem_cons_of_mem _ hx))]
    exact step_other_key tol between st s k (h s (List.mem_cons_self))

/-- a cached donor is used whenever the oracle's affine fits 16.16 and the fill can be expressed -/
theorem step_reuses (tol : Q) (between : Nat → ShapeIn → Option Aff) (st : MState) (s : ShapeIn) (donor : Nat) (T : Aff)
    (hl : st.cache.lookup s.key = some donor) (htol : tol ≠ -1) (hb : between donor s = some T)
    (hs : fixedSafe T.toList = true) (hm : (migrateReuse T donor s.child).isSome = true) :
    (migrateStep tol between st s).2.outline = some donor ∧ (migrateStep tol between st s).1 = st := by
  obtain ⟨p, hp⟩ := Option.isSome_iff_exists.mp hm
  unfold migrateStep
  simp [hl, hb, tryReuse, htol, hs, hp, migrateReuse_outline T donor s.child p hp]

end NanoVerif
