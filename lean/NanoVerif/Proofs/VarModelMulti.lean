import NanoVerif.Proofs.VarModel
import Mathlib.Data.List.Nodup
import Mathlib.Data.List.Perm.Basic
/-
Several axes: the supports `_computeMasterSupports` builds are triangular too.  For masters in an order in
which the number of axes a master moves on never decreases (fontTools sorts by that "rank" first), the
support of a later master is 0 at every earlier master's location:
  * different axes: the later master moves on an axis the earlier one does not, and a support never reaches
    across 0 on an axis it has;
  * same axes: the box-splitting step for that earlier master pushes it onto the boundary on an axis of best
    ratio (or it already was outside), and later steps only shrink the box.
-/
namespace NanoVerif.Var

/-- region `i` belongs to coordinate `i` of the master and is well-formed where the master moves -/
def AllWF : Support → Loc → Prop
  | [], [] => True
  | r :: rs, v :: vs => r.peak = v ∧ (v ≠ 0 → WF r) ∧ AllWF rs vs
  | _, _ => False

/-- the second box lies inside the first, axis by axis -/
def Shr : Support → Support → Prop
  | [], [] => True
  | r :: rs, r' :: rs' => r.lower ≤ r'.lower ∧ r'.upper ≤ r.upper ∧ Shr rs rs'
  | _, _ => False

/-- on some axis the master moves on, `p` differs from the peak and is on or outside the boundary -/
def ExclAt : Support → Loc → Loc → Prop
  | r :: rs, v :: vs, p :: ps => (v ≠ 0 ∧ p ≠ v ∧ Excl r p) ∨ ExclAt rs vs ps
  | _, _, _ => False

def rank (l : Loc) : Nat := (axesOf l).count true

theorem allwf_length : ∀ (s : Support) (v : Loc), AllWF s v → s.length = v.length
  | [], [], _ => rfl
  | r :: rs, v :: vs, h => by simp [allwf_length rs vs h.2.2]
  | [], _ :: _, h => h.elim
  | _ :: _, [], h => h.elim

theorem initSupport_allwf : ∀ (loc : Loc), (∀ v ∈ loc, -1 ≤ v ∧ v ≤ 1) → AllWF (initSupport loc) loc
  | [], _ => trivial
  | v :: vs, h => by
    refine ⟨initRegion_peak v, fun h0 => initRegion_wf v h0 (h v (by simp)).1 (h v (by simp)).2, ?_⟩
    exact initSupport_allwf vs (fun w hw => h w (List.mem_cons_of_mem _ hw))

theorem scalar_own : ∀ (s : Support) (v : Loc), AllWF s v → supportScalar v s = 1
  | [], [], _ => rfl
  | r :: rs, v :: vs, h => by
    have ih := scalar_own rs vs h.2.2
    unfold supportScalar at ih ⊢
    simp only [List.zipWith_cons_cons, prodQ, ih, mul_one]
    rw [← h.1]; exact tent_peak r
  | [], _ :: _, h => h.elim
  | _ :: _, [], h => h.elim

theorem scalar_zero : ∀ (s : Support) (v p : Loc), AllWF s v → ExclAt s v p → supportScalar p s = 0
  | r :: rs, v :: vs, p :: ps, h, e => by
    unfold supportScalar
    simp only [List.zipWith_cons_cons, prodQ]
    rcases e with ⟨hv, hne, hex⟩ | e
    · rw [tent_outside r p (h.2.1 hv) (by rw [h.1]; exact hne) hex, zero_mul]
    · have ih := scalar_zero rs vs ps h.2.2 e
      unfold supportScalar at ih
      rw [ih, mul_zero]
  | [], _, _, _, e => by cases e
  | _ :: _, [], _, _, e => by cases e
  | _ :: _, _ :: _, [], _, e => by cases e

theorem shr_refl : ∀ (s : Support), Shr s s
  | [] => trivial
  | r :: rs => ⟨le_refl _, le_refl _, shr_refl rs⟩

theorem shr_trans : ∀ (a b c : Support), Shr a b → Shr b c → Shr a c
  | [], [], [], _, _ => trivial
  | x :: xs, y :: ys, z :: zs, h1, h2 =>
    ⟨le_trans h1.1 h2.1, le_trans h2.2.1 h1.2.1, shr_trans xs ys zs h1.2.2 h2.2.2⟩
  | [], [], _ :: _, _, h => h.elim
  | [], _ :: _, _, h, _ => h.elim
  | _ :: _, [], _, h, _ => h.elim
  | _ :: _, _ :: _, [], _, h => h.elim

theorem exclAt_mono : ∀ (s s' : Support) (v p : Loc), Shr s s' → ExclAt s v p → ExclAt s' v p
  | r :: rs, r' :: rs', v :: vs, p :: ps, h, e => by
    rcases e with ⟨hv, hne, hex⟩ | e
    · exact Or.inl ⟨hv, hne, excl_mono r r' p h.1 h.2.1 hex⟩
    · exact Or.inr (exclAt_mono rs rs' vs ps h.2.2 e)
  | [], _, _, _, _, e => by cases e
  | _ :: _, [], _, _, h, _ => h.elim
  | _ :: _, _ :: _, [], _, _, e => by cases e
  | _ :: _, _ :: _, _ :: _, [], _, e => by cases e

/-! ### different axes -/

theorem excl_of_other_axes : ∀ (s : Support) (v p : Loc), AllWF s v → p.length = v.length →
    axesOf p ≠ axesOf v → rank p ≤ rank v → ExclAt s v p
  | [], [], [], _, _, hne, _ => absurd rfl hne
  | r :: rs, v :: vs, p :: ps, h, hl, hne, hr => by
    by_cases hv : v = 0
    · -- the later master does not move here
      right
      by_cases hp : p = 0
      · refine excl_of_other_axes rs vs ps h.2.2 (by simpa using hl) ?_ ?_
        · intro e; apply hne; simp [axesOf, hv, hp] at e ⊢; exact e
        · simpa [rank, axesOf, hv, hp] using hr
      · have hr' : rank ps + 1 ≤ rank vs := by simpa [rank, axesOf, hv, hp] using hr
        refine excl_of_other_axes rs vs ps h.2.2 (by simpa using hl) ?_ (by omega)
        intro e
        have : rank ps = rank vs := by unfold rank; rw [e]
        omega
    · by_cases hp : p = 0
      · left
        have wf := h.2.1 hv
        refine ⟨hv, by rw [hp]; exact Ne.symm hv, ?_⟩
        rw [hp]; exact wf.2.2.2
      · right
        refine excl_of_other_axes rs vs ps h.2.2 (by simpa using hl) ?_ ?_
        · intro e; apply hne; simp [axesOf, hv, hp] at e ⊢; exact e
        · simpa [rank, axesOf, hv, hp] using hr
  | [], _ :: _, _, h, _, _, _ => h.elim
  | _ :: _, [], _, h, _, _, _ => h.elim
  | [], [], _ :: _, _, hl, _, _ => by simp at hl
  | _ :: _, _ :: _, [], _, hl, _, _ => by simp at hl

/-! ### same axes: one step of the box splitting -/

/-- the per-axis choice of `splitBy` once `best` is known -/
def pick (best : Q) (r : Region) (c : Option (Q × Region)) : Region :=
  match c with
  | some (q, r') => if q = best then r' else r
  | none => r

theorem splitBy_eq (loc : Loc) (region : Support) (prev : Loc) :
    splitBy loc region prev =
      if axesOf prev ≠ axesOf loc then region
      else if !relevant region prev then region
      else List.zipWith (pick (bestRatio (List.zipWith candidate region prev))) region
        (List.zipWith candidate region prev) := by
  unfold splitBy
  split_ifs <;> rfl

def relAxis (r : Region) (p : Q) : Prop := r.peak = 0 ∨ p = r.peak ∨ (r.lower < p ∧ p < r.upper)

theorem relevant_cons (r : Region) (rs : Support) (p : Q) (ps : Loc) :
    relevant (r :: rs) (p :: ps) = true ↔ relAxis r p ∧ relevant rs ps = true := by
  unfold relevant relAxis
  simp only [List.zip_cons_cons, List.all_cons, Bool.and_eq_true, Bool.or_eq_true, decide_eq_true_eq, or_assoc]

/-- the narrowed region of an axis where the earlier master is inside the box -/
theorem candidate_props (r : Region) (p q : Q) (r' : Region) (hc : candidate r p = some (q, r'))
    (hrel : relAxis r p) (wf : WF r) :
    WF r' ∧ r'.peak = r.peak ∧ r.lower ≤ r'.lower ∧ r'.upper ≤ r.upper ∧ Excl r' p ∧ p ≠ r.peak ∧ 0 < q := by
  obtain ⟨hp, h1, h2, h3⟩ := wf
  have hrel' : p = r.peak ∨ (r.lower < p ∧ p < r.upper) := by
    rcases hrel with e | e
    · exact absurd e hp
    · exact e
  have hq := candidate_ratio_pos r p q r' hc hrel'
  unfold candidate at hc
  split_ifs at hc with a b c
  · simp only [Option.some.injEq, Prod.mk.injEq] at hc
    obtain ⟨_, rfl⟩ := hc
    have hin : r.lower < p := by
      rcases hrel' with e | e
      · exact absurd (e ▸ b) (lt_irrefl _)
      · exact e.1
    refine ⟨⟨hp, le_of_lt b, h2, ?_⟩, rfl, le_of_lt hin, le_refl _, Or.inl (le_refl _), ne_of_lt b, hq⟩
    rcases h3 with h3 | h3
    · exact Or.inl (le_trans h3 (le_of_lt hin))
    · exact Or.inr h3
  · simp only [Option.some.injEq, Prod.mk.injEq] at hc
    obtain ⟨_, rfl⟩ := hc
    have hin : p < r.upper := by
      rcases hrel' with e | e
      · exact absurd (e ▸ c) (lt_irrefl _)
      · exact e.2
    refine ⟨⟨hp, h1, le_of_lt c, ?_⟩, rfl, le_refl _, le_of_lt hin, Or.inr (le_refl _), ne_of_gt c, hq⟩
    rcases h3 with h3 | h3
    · exact Or.inl h3
    · exact Or.inr (le_trans (le_of_lt hin) h3)

theorem candidate_none_of_absent (r : Region) (p : Q) (h : r.peak = 0) : candidate r p = none := by
  unfold candidate; rw [if_pos h]

/-- one step keeps the regions well-formed, keeps the peaks and only shrinks the box (any `best`). -/
theorem pick_allwf (best : Q) : ∀ (region : Support) (loc prev : Loc), AllWF region loc →
    prev.length = loc.length → relevant region prev = true →
    AllWF (List.zipWith (pick best) region (List.zipWith candidate region prev)) loc
      ∧ Shr region (List.zipWith (pick best) region (List.zipWith candidate region prev))
  | [], [], _, _, _, _ => by simp [AllWF, Shr]
  | r :: rs, v :: vs, p :: ps, h, hl, hrel => by
    rw [relevant_cons] at hrel
    obtain ⟨ih1, ih2⟩ := pick_allwf best rs vs ps h.2.2 (by simpa using hl) hrel.2
    simp only [List.zipWith_cons_cons]
    cases hc : candidate r p with
    | none => exact ⟨⟨h.1, h.2.1, ih1⟩, le_refl _, le_refl _, ih2⟩
    | some qr =>
      obtain ⟨q, r'⟩ := qr
      by_cases hv : v = 0
      · rw [candidate_none_of_absent r p (h.1.trans hv)] at hc; cases hc
      · obtain ⟨w, pk, lo, up, _, _, _⟩ := candidate_props r p q r' hc hrel.1 (h.2.1 hv)
        unfold pick
        simp only
        split_ifs
        · exact ⟨⟨pk.trans h.1, fun _ => w, ih1⟩, lo, up, ih2⟩
        · exact ⟨⟨h.1, h.2.1, ih1⟩, le_refl _, le_refl _, ih2⟩
  | [], _ :: _, _, h, _, _ => h.elim
  | _ :: _, [], _, h, _, _ => h.elim
  | _ :: _, _ :: _, [], _, hl, _ => by simp at hl

/-- if the best ratio is attained on some axis, the earlier master ends up on the boundary there. -/
theorem pick_excl (best : Q) : ∀ (region : Support) (loc prev : Loc), AllWF region loc →
    prev.length = loc.length → relevant region prev = true →
    (∃ r', some (best, r') ∈ List.zipWith candidate region prev) →
    ExclAt (List.zipWith (pick best) region (List.zipWith candidate region prev)) loc prev
  | [], [], _, _, _, _, ⟨_, hm⟩ => by simp at hm
  | r :: rs, v :: vs, p :: ps, h, hl, hrel, ⟨r', hm⟩ => by
    rw [relevant_cons] at hrel
    simp only [List.zipWith_cons_cons, List.mem_cons] at hm ⊢
    rcases hm with hm | hm
    · left
      have hc : candidate r p = some (best, r') := hm.symm
      by_cases hv : v = 0
      · rw [candidate_none_of_absent r p (h.1.trans hv)] at hc; cases hc
      · obtain ⟨_, _, _, _, ex, ne, _⟩ := candidate_props r p best r' hc hrel.1 (h.2.1 hv)
        refine ⟨hv, by rw [← h.1]; exact ne, ?_⟩
        rw [hc]; unfold pick; simp only [if_true]; exact ex
    · right
      exact pick_excl best rs vs ps h.2.2 (by simpa using hl) hrel.2 ⟨r', hm⟩
  | [], _ :: _, _, h, _, _, _ => h.elim
  | _ :: _, [], _, h, _, _, _ => h.elim
  | _ :: _, _ :: _, [], _, hl, _, _ => by simp at hl

def foldBest (b : Q) (cs : List (Option (Q × Region))) : Q :=
  cs.foldl (fun b c => match c with | some (q, _) => qmax b q | none => b) b

theorem foldBest_props : ∀ (cs : List (Option (Q × Region))) (b : Q),
    b ≤ foldBest b cs ∧ (∀ q r, some (q, r) ∈ cs → q ≤ foldBest b cs)
      ∧ (foldBest b cs = b ∨ ∃ r', some (foldBest b cs, r') ∈ cs) := by
  intro cs
  induction cs with
  | nil => intro b; exact ⟨le_refl _, fun _ _ h => absurd h List.not_mem_nil, Or.inl rfl⟩
  | cons c cs ih =>
    intro b
    cases c with
    | none =>
      obtain ⟨a1, a2, a3⟩ := ih b
      have e : foldBest b (none :: cs) = foldBest b cs := rfl
      rw [e]
      refine ⟨a1, fun q r h => ?_, ?_⟩
      · rcases List.mem_cons.mp h with h | h
        · cases h
        · exact a2 q r h
      · rcases a3 with a3 | ⟨r', a3⟩
        · exact Or.inl a3
        · exact Or.inr ⟨r', List.mem_cons_of_mem _ a3⟩
    | some qr =>
      obtain ⟨q, r⟩ := qr
      obtain ⟨a1, a2, a3⟩ := ih (qmax b q)
      have e : foldBest b (some (q, r) :: cs) = foldBest (qmax b q) cs := rfl
      rw [e]
      have hb : b ≤ qmax b q := by
        unfold qmax; split
        · assumption
        · exact le_refl _
      have hq' : q ≤ qmax b q := by
        unfold qmax; split
        · exact le_refl _
        · next c => exact le_of_lt (not_le.mp c)
      refine ⟨le_trans hb a1, fun q2 r2 h => ?_, ?_⟩
      · rcases List.mem_cons.mp h with h | h
        · simp only [Option.some.injEq, Prod.mk.injEq] at h
          rw [h.1]; exact le_trans hq' a1
        · exact a2 q2 r2 h
      · rcases a3 with a3 | ⟨r', a3⟩
        · by_cases hbq : b ≤ q
          · right
            refine ⟨r, ?_⟩
            have : qmax b q = q := by unfold qmax; rw [if_pos hbq]
            rw [a3, this]; exact List.mem_cons_self
          · left
            have : qmax b q = b := by unfold qmax; rw [if_neg hbq]
            rw [a3, this]
        · exact Or.inr ⟨r', List.mem_cons_of_mem _ a3⟩

/-- the best ratio is one of the candidates' as soon as one of them beats the initial −1. -/
theorem bestRatio_attained (cs : List (Option (Q × Region))) (q0 : Q) (r0 : Region)
    (hm : some (q0, r0) ∈ cs) (hq : -1 < q0) : ∃ r', some (bestRatio cs, r') ∈ cs := by
  have e : bestRatio cs = foldBest (-1) cs := rfl
  obtain ⟨_, a2, a3⟩ := foldBest_props cs (-1)
  rw [e]
  rcases a3 with a3 | a3
  · have := a2 q0 r0 hm
    rw [a3] at this
    exact absurd (lt_of_lt_of_le hq this) (lt_irrefl _)
  · exact a3

/-- an earlier master with the same axes but another position: some candidate exists -/
theorem exists_candidate : ∀ (region : Support) (loc prev : Loc), AllWF region loc →
    prev.length = loc.length → axesOf prev = axesOf loc → prev ≠ loc → relevant region prev = true →
    ∃ q r', some (q, r') ∈ List.zipWith candidate region prev ∧ 0 < q
  | [], [], [], _, _, _, hne, _ => absurd rfl hne
  | r :: rs, v :: vs, p :: ps, h, hl, hax, hne, hrel => by
    rw [relevant_cons] at hrel
    simp only [axesOf, List.map_cons, List.cons.injEq, decide_eq_decide] at hax
    by_cases hpv : p = v
    · have : ps ≠ vs := fun e => hne (by rw [hpv, e])
      obtain ⟨q, r', hm, hq⟩ := exists_candidate rs vs ps h.2.2 (by simpa using hl) hax.2 this hrel.2
      exact ⟨q, r', by simp only [List.zipWith_cons_cons]; exact List.mem_cons_of_mem _ hm, hq⟩
    · have hv : v ≠ 0 := by
        intro e
        apply hpv
        rw [e]
        by_contra hp
        exact (hax.1.mp hp) e
      have wf := h.2.1 hv
      have hcand : ∃ q r', candidate r p = some (q, r') := by
        unfold candidate
        rw [if_neg (by rw [h.1]; exact hv)]
        by_cases c : p < r.peak
        · rw [if_pos c]; exact ⟨_, _, rfl⟩
        · rw [if_neg c]
          have : r.peak < p := lt_of_le_of_ne (not_lt.mp c) (by rw [h.1]; exact Ne.symm hpv)
          rw [if_pos this]; exact ⟨_, _, rfl⟩
      obtain ⟨q, r', hc⟩ := hcand
      obtain ⟨_, _, _, _, _, _, hq⟩ := candidate_props r p q r' hc hrel.1 wf
      exact ⟨q, r', by simp only [List.zipWith_cons_cons, hc]; exact List.mem_cons_self, hq⟩
  | [], _ :: _, _, h, _, _, _, _ => h.elim
  | _ :: _, [], _, h, _, _, _, _ => h.elim
  | [], [], _ :: _, _, hl, _, _, _ => by simp at hl
  | _ :: _, _ :: _, [], _, hl, _, _, _ => by simp at hl

/-- not relevant: the earlier master already is outside the box on some axis -/
theorem excl_of_not_relevant : ∀ (region : Support) (loc prev : Loc), AllWF region loc →
    prev.length = loc.length → relevant region prev = false → ExclAt region loc prev
  | [], [], _, _, _, hrel => by simp [relevant] at hrel
  | r :: rs, v :: vs, p :: ps, h, hl, hrel => by
    by_cases ha : relAxis r p
    · right
      refine excl_of_not_relevant rs vs ps h.2.2 (by simpa using hl) ?_
      by_contra c
      have : relevant (r :: rs) (p :: ps) = true := (relevant_cons r rs p ps).mpr ⟨ha, by simpa using c⟩
      rw [this] at hrel; cases hrel
    · left
      unfold relAxis at ha
      have h1 : ¬ r.peak = 0 := fun e => ha (Or.inl e)
      have h2 : ¬ p = r.peak := fun e => ha (Or.inr (Or.inl e))
      have h3 : ¬ (r.lower < p ∧ p < r.upper) := fun e => ha (Or.inr (Or.inr e))
      refine ⟨by rw [← h.1]; exact h1, by rw [← h.1]; exact h2, ?_⟩
      by_cases hlo : r.lower < p
      · exact Or.inr (not_lt.mp fun hu => h3 ⟨hlo, hu⟩)
      · exact Or.inl (not_lt.mp hlo)
  | [], _ :: _, _, h, _, _ => h.elim
  | _ :: _, [], _, h, _, _ => h.elim
  | _ :: _, _ :: _, [], _, hl, _ => by simp at hl

/-- one step of the inner loop: well-formedness kept, box shrinks. -/
theorem splitBy_allwf (loc : Loc) (region : Support) (prev : Loc) (h : AllWF region loc)
    (hl : prev.length = loc.length) :
    AllWF (splitBy loc region prev) loc ∧ Shr region (splitBy loc region prev) := by
  rw [splitBy_eq]
  split_ifs with a b
  · exact ⟨h, shr_refl _⟩
  · exact ⟨h, shr_refl _⟩
  · exact pick_allwf _ region loc prev h hl (by simpa using b)

/-- one step of the inner loop switches the earlier master it is run for off. -/
theorem splitBy_excl (loc : Loc) (region : Support) (prev : Loc) (h : AllWF region loc)
    (hl : prev.length = loc.length) (hne : prev ≠ loc) (hr : rank prev ≤ rank loc) :
    ExclAt (splitBy loc region prev) loc prev := by
  rw [splitBy_eq]
  split_ifs with a b
  · exact excl_of_other_axes region loc prev h hl a hr
  · exact excl_of_not_relevant region loc prev h hl (by simpa using b)
  · have hrel : relevant region prev = true := by simpa using b
    have hax : axesOf prev = axesOf loc := by simpa using a
    obtain ⟨q, r', hm, hq⟩ := exists_candidate region loc prev h hl hax hne hrel
    have att := bestRatio_attained _ q r' hm (by linarith)
    exact pick_excl _ region loc prev h hl hrel att

/-- the support of a master, built against all the masters before it, is 0 at each of them. -/
theorem supportOf_excludes (loc : Loc) (hb : ∀ v ∈ loc, -1 ≤ v ∧ v ≤ 1) (prevs : List Loc)
    (hp : ∀ p ∈ prevs, p.length = loc.length ∧ p ≠ loc ∧ rank p ≤ rank loc) :
    AllWF (supportOf prevs loc) loc ∧ ∀ p ∈ prevs, supportScalar p (supportOf prevs loc) = 0 := by
  have gen : ∀ (prevs : List Loc) (region : Support), AllWF region loc →
      (∀ p ∈ prevs, p.length = loc.length ∧ p ≠ loc ∧ rank p ≤ rank loc) →
      AllWF (prevs.foldl (splitBy loc) region) loc ∧ Shr region (prevs.foldl (splitBy loc) region)
        ∧ ∀ p ∈ prevs, ExclAt (prevs.foldl (splitBy loc) region) loc p := by
    intro prevs
    induction prevs with
    | nil => intro region h _; exact ⟨h, shr_refl _, fun _ hp => by cases hp⟩
    | cons q qs ih =>
      intro region h hp
      obtain ⟨hql, hqne, hqr⟩ := hp q (by simp)
      obtain ⟨w, s⟩ := splitBy_allwf loc region q h hql
      obtain ⟨a1, a2, a3⟩ := ih (splitBy loc region q) w (fun p hpm => hp p (List.mem_cons_of_mem _ hpm))
      simp only [List.foldl_cons]
      refine ⟨a1, shr_trans _ _ _ s a2, fun p hpm => ?_⟩
      rcases List.mem_cons.mp hpm with rfl | hpm
      · exact exclAt_mono _ _ loc p a2 (splitBy_excl loc region p h hql hqne hqr)
      · exact a3 p hpm
  obtain ⟨a1, _, a3⟩ := gen prevs (initSupport loc) (initSupport_allwf loc hb) hp
  exact ⟨a1, fun p hpm => scalar_zero _ loc p a1 (a3 p hpm)⟩

theorem supportsGo_getElem? (prevs ls : List Loc) (j : Nat) (hj : j < ls.length) :
    (supportsGo prevs ls)[j]? = some (supportOf (prevs ++ ls.take j) (ls.getD j [])) := by
  induction ls generalizing prevs j with
  | nil => simp at hj
  | cons v vs ih =>
    cases j with
    | zero => simp [supportsGo]
    | succ j =>
      simp only [supportsGo, List.getElem?_cons_succ, List.take_succ_cons, List.getD_cons_succ]
      rw [ih (prevs ++ [v]) j (by simpa using hj)]
      simp

/-- masters in the model's order: one coordinate per axis, inside [-1, 1], pairwise distinct, and the number of
axes a master moves on never decreases along the list (what `sortLocs` / fontTools' sort key puts first). -/
structure GoodOrder (locs : List Loc) (k : Nat) : Prop where
  len : ∀ l ∈ locs, l.length = k
  box : ∀ l ∈ locs, ∀ v ∈ l, -1 ≤ v ∧ v ≤ 1
  nodup : locs.Nodup
  ranked : locs.Pairwise (fun a b => rank a ≤ rank b)

/-- the scalar table of the whole model is unit lower-triangular. -/
theorem scalarTable_triangular (locs : List Loc) (k : Nat) (h : GoodOrder locs k) (j : Nat) (hj : j < locs.length) :
    scalarTable locs j j = 1 ∧ ∀ i, i < j → scalarTable locs j i = 0 := by
  have hs := supportsGo_getElem? [] locs j hj
  simp only [List.nil_append] at hs
  have hlj : locs.getD j [] = locs[j] := by simp [List.getD_eq_getElem?_getD, List.getElem?_eq_getElem hj]
  have hp : ∀ p ∈ locs.take j, p.length = (locs[j]).length ∧ p ≠ locs[j] ∧ rank p ≤ rank locs[j] := by
    intro p hp
    rw [List.mem_take_iff_getElem] at hp
    obtain ⟨i, hi, rfl⟩ := hp
    have hij : i < j := by omega
    have hil : i < locs.length := by omega
    refine ⟨by rw [h.len _ (List.getElem_mem _), h.len _ (List.getElem_mem _)], ?_, ?_⟩
    · intro e
      have := (List.Nodup.getElem_inj_iff h.nodup).mp e
      omega
    · exact (List.pairwise_iff_getElem.mp h.ranked) i j hil hj hij
  obtain ⟨wf, zero⟩ := supportOf_excludes locs[j] (h.box _ (List.getElem_mem _)) (locs.take j) hp
  unfold scalarTable supports
  simp only [List.getD_eq_getElem?_getD, hs, Option.getD_some]
  rw [← List.getD_eq_getElem?_getD, hlj]
  refine ⟨?_, fun i hij => ?_⟩
  · exact scalar_own _ _ wf
  · have hil : i < locs.length := by omega
    rw [List.getElem?_eq_getElem hil, Option.getD_some]
    exact zero _ (by rw [List.mem_take_iff_getElem]; exact ⟨i, by simp [hij, hil], rfl⟩)

/-! ### the order `sortLocs` puts the masters in is a `GoodOrder` -/

theorem filter_zipIdx_length (l : Loc) (n : Nat) :
    ((l.zipIdx n).filter (fun (x : Q × Nat) => decide (x.1 ≠ 0))).length = rank l := by
  induction l generalizing n with
  | nil => rfl
  | cons v vs ih =>
    simp only [List.zipIdx_cons, List.filter_cons, rank, axesOf, List.map_cons]
    by_cases hv : v = 0
    · simp only [hv, ne_eq, not_true_eq_false, decide_false, Bool.false_eq_true, if_false]
      rw [ih (n + 1)]; simp [rank, axesOf]
    · simp only [ne_eq, hv, not_false_eq_true, decide_true, if_true, List.length_cons, List.count_cons_self]
      rw [ih (n + 1)]; simp [rank, axesOf]

theorem sortKey_rank (locs : List Loc) (l : Loc) : (sortKey locs l).rank = rank l := by
  unfold sortKey
  exact filter_zipIdx_length l 0

theorem keyLt_of_rank_lt (a b : SortKey) (h : a.rank < b.rank) : keyLt a b = true := by
  unfold keyLt
  rw [if_pos (by omega)]
  simpa using h

theorem rank_le_of_keyLt (a b : SortKey) (h : keyLt a b = true) : a.rank ≤ b.rank := by
  unfold keyLt at h
  split_ifs at h with c
  · have : a.rank < b.rank := by simpa using h
    omega
  all_goals (have : a.rank = b.rank := by simpa using c)
  all_goals omega

theorem mem_insertBy (lt : Loc → Loc → Bool) (x w : Loc) (l : List Loc) (h : w ∈ insertBy lt x l) : w = x ∨ w ∈ l := by
  induction l with
  | nil => simp [insertBy] at h; exact Or.inl h
  | cons y ys ih =>
    unfold insertBy at h
    split_ifs at h
    · rcases List.mem_cons.mp h with h | h
      · exact Or.inl h
      · exact Or.inr h
    · rcases List.mem_cons.mp h with h | h
      · exact Or.inr (h ▸ List.mem_cons_self)
      · rcases ih h with h | h
        · exact Or.inl h
        · exact Or.inr (List.mem_cons_of_mem _ h)

theorem insertBy_ranked (lt : Loc → Loc → Bool) (h1 : ∀ x y, lt x y = true → rank x ≤ rank y)
    (h2 : ∀ x y, lt x y = false → rank y ≤ rank x) (x : Loc) (l : List Loc)
    (hl : l.Pairwise (fun a b => rank a ≤ rank b)) : (insertBy lt x l).Pairwise (fun a b => rank a ≤ rank b) := by
  induction l with
  | nil => simp [insertBy]
  | cons y ys ih =>
    obtain ⟨hy, hys⟩ := List.pairwise_cons.mp hl
    unfold insertBy
    by_cases c : lt x y = true
    · rw [if_pos c]
      refine List.pairwise_cons.mpr ⟨fun w hw => ?_, hl⟩
      rcases List.mem_cons.mp hw with rfl | hw
      · exact h1 _ _ c
      · exact le_trans (h1 _ _ c) (hy w hw)
    · rw [if_neg c]
      refine List.pairwise_cons.mpr ⟨fun w hw => ?_, ih hys⟩
      rcases mem_insertBy lt x w ys hw with rfl | hw
      · exact h2 _ _ (by simpa using c)
      · exact hy w hw

theorem insertBy_perm (lt : Loc → Loc → Bool) (x : Loc) (l : List Loc) : (insertBy lt x l).Perm (x :: l) := by
  induction l with
  | nil => simp [insertBy]
  | cons y ys ih =>
    unfold insertBy
    split_ifs
    · exact List.Perm.refl _
    · exact (List.Perm.cons y ih).trans (List.Perm.swap x y ys)

theorem foldl_insert_props (lt : Loc → Loc → Bool) (h1 : ∀ x y, lt x y = true → rank x ≤ rank y)
    (h2 : ∀ x y, lt x y = false → rank y ≤ rank x) (l acc : List Loc)
    (hacc : acc.Pairwise (fun a b => rank a ≤ rank b)) :
    (l.foldl (fun acc x => insertBy lt x acc) acc).Pairwise (fun a b => rank a ≤ rank b)
      ∧ (l.foldl (fun acc x => insertBy lt x acc) acc).Perm (acc ++ l) := by
  induction l generalizing acc with
  | nil => simpa using hacc
  | cons x xs ih =>
    obtain ⟨a, b⟩ := ih (insertBy lt x acc) (insertBy_ranked lt h1 h2 x acc hacc)
    refine ⟨a, b.trans ?_⟩
    exact ((insertBy_perm lt x acc).append_right xs).trans (by simpa using List.perm_middle.symm)

/-- whatever order the masters are declared in, the model's order is a `GoodOrder`. -/
theorem sortLocs_good (locs : List Loc) (k : Nat) (hlen : ∀ l ∈ locs, l.length = k)
    (hbox : ∀ l ∈ locs, ∀ v ∈ l, -1 ≤ v ∧ v ≤ 1) (hnd : locs.Nodup) :
    GoodOrder (sortLocs locs) k ∧ (sortLocs locs).Perm locs := by
  obtain ⟨a, b⟩ := foldl_insert_props (fun a b => keyLt (sortKey locs a) (sortKey locs b))
    (fun x y h => by have := rank_le_of_keyLt _ _ h; rwa [sortKey_rank, sortKey_rank] at this)
    (fun x y h => by
      by_contra c
      have : rank x < rank y := by omega
      have := keyLt_of_rank_lt (sortKey locs x) (sortKey locs y) (by rwa [sortKey_rank, sortKey_rank])
      rw [this] at h; cases h)
    locs [] List.Pairwise.nil
  have b' : (sortLocs locs).Perm locs := by simpa [sortLocs] using b
  exact ⟨⟨fun l hl => hlen l (b'.mem_iff.mp hl), fun l hl => hbox l (b'.mem_iff.mp hl), b'.nodup_iff.mpr hnd, a⟩, b'⟩

end NanoVerif.Var
