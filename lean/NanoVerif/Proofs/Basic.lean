import NanoVerif.Model.Affine
import Mathlib.Tactic.Ring
import Mathlib.Tactic.FieldSimp
import Mathlib.Tactic.Linarith
import Mathlib.Tactic.Positivity
import Mathlib.Algebra.Order.Field.Rat
import Mathlib.Data.Rat.Floor
/- Bridges between the Mathlib-free model definitions and Mathlib's vocabulary. -/
namespace NanoVerif

theorem floor_eq (x : Q) : x.floor = ⌊x⌋ := rfl
theorem qceil_eq (x : Q) : qceil x = ⌈x⌉ := rfl

theorem qabs_eq (x : Q) : qabs x = |x| := by
  unfold qabs; split
  · rw [abs_of_nonneg]; assumption
  · rw [abs_of_neg]; exact lt_of_not_ge ‹_›

theorem qmax_eq (x y : Q) : qmax x y = max x y := by
  unfold qmax; split
  · rw [max_eq_right]; assumption
  · rw [max_eq_left]; exact le_of_lt (lt_of_not_ge ‹_›)

theorem qmin_eq (x y : Q) : qmin x y = min x y := by
  unfold qmin; split
  · rw [min_eq_left]; assumption
  · rw [min_eq_right]; exact le_of_lt (lt_of_not_ge ‹_›)

theorem almostEq_iff (t x y : Q) : almostEq t x y = true ↔ |x - y| ≤ t := by
  simp [almostEq, qabs_eq]

theorem mkQ_eq (p : Int) (q : Nat) : mkQ p q = (p : Q) / (q : Q) := rfl

@[ext] theorem Aff.ext' {s t : Aff} (ha : s.a = t.a) (hb : s.b = t.b) (hc : s.c = t.c)
    (hd : s.d = t.d) (he : s.e = t.e) (hf : s.f = t.f) : s = t := by
  cases s; cases t; simp_all

end NanoVerif
