import NanoVerif.Model.DisjointSet
import Mathlib.Logic.Relation
/-
`DisjointSet`: after any sequence of `make_set` / `union`, two elements are in the same class exactly when the declared pairs
connect them (the equivalence closure of the `union` pairs) — no merge is lost, none is invented.
-/
namespace NanoVerif
open Relation

theorem eqvGen_mono {α} {r s : α → α → Prop} (h : ∀ a b, r a b → s a b) {a b : α} (hab : EqvGen r a b) : EqvGen s a b := by
  induction hab with
  | rel x y hxy => exact EqvGen.rel _ _ (h _ _ hxy)
  | refl x => exact EqvGen.refl _
  | symm x y _ ih => exact EqvGen.symm _ _ ih
  | trans x y z _ _ ih1 ih2 => exact EqvGen.trans _ _ _ ih1 ih2

/-- closing again changes nothing -/
theorem eqvGen_flatten {α} {r s : α → α → Prop} (h : ∀ a b, r a b → EqvGen s a b) {a b : α} (hab : EqvGen r a b) : EqvGen s a b := by
  induction hab with
  | rel x y hxy => exact h _ _ hxy
  | refl x => exact EqvGen.refl _
  | symm x y _ ih => exact EqvGen.symm _ _ ih
  | trans x y z _ _ ih1 ih2 => exact EqvGen.trans _ _ _ ih1 ih2

@[simp] theorem touch_rep (d : DSet) (x : Nat) : (d.touch x).rep = d.rep := by
  unfold DSet.touch; split <;> rfl

theorem same_closed (d : DSet) {a b : Nat} (h : EqvGen d.same a b) : d.same a b := by
  induction h with
  | rel x y hxy => exact hxy
  | refl x => rfl
  | symm x y _ ih => exact ih.symm
  | trans x y z _ _ ih1 ih2 => exact ih1.trans ih2

/-- one `union`: the new classes are the closure of the old ones plus the pair -/
theorem union_same (d : DSet) (x y a b : Nat) :
    (d.union x y).same a b ↔ EqvGen (fun p q => d.same p q ∨ (p = x ∧ q = y)) a b := by
  constructor
  · intro h
    have old : ∀ p q, d.same p q → EqvGen (fun p q => d.same p q ∨ (p = x ∧ q = y)) p q :=
      fun p q hpq => EqvGen.rel _ _ (Or.inl hpq)
    have pair : EqvGen (fun p q => d.same p q ∨ (p = x ∧ q = y)) x y := EqvGen.rel _ _ (Or.inr ⟨rfl, rfl⟩)
    simp only [DSet.same, DSet.union] at h
    by_cases ha : d.rep a = d.rep y <;> by_cases hb : d.rep b = d.rep y
    · exact old a b (ha.trans hb.symm)
    · simp only [ha, hb, if_true, if_false] at h
      -- a ~ y, x ~ b
      exact EqvGen.trans _ _ _ (old a y ha) (EqvGen.trans _ _ _ (EqvGen.symm _ _ pair) (old x b h))
    · simp only [ha, hb, if_true, if_false] at h
      exact EqvGen.trans _ _ _ (old a x h) (EqvGen.trans _ _ _ pair (old y b hb.symm))
    · simp only [ha, hb, if_false] at h
      exact old a b h
  · intro h
    induction h with
    | rel p q hpq =>
      rcases hpq with hpq | ⟨rfl, rfl⟩
      · simp only [DSet.same, DSet.union]
        simp only [DSet.same] at hpq
        rw [hpq]
      · simp only [DSet.same, DSet.union, if_true]
        split <;> rfl
    | refl p => rfl
    | symm p q _ ih => exact ih.symm
    | trans p q r _ _ ih1 ih2 => exact ih1.trans ih2

/-- **classes = equivalence closure of the declared pairs**, from any starting state -/
theorem run_same (ops : List DOp) : ∀ (d : DSet) (a b : Nat),
    (d.run ops).same a b ↔ EqvGen (fun p q => d.same p q ∨ (p, q) ∈ unionPairs ops) a b := by
  induction ops with
  | nil =>
    intro d a b
    simp only [DSet.run, unionPairs, List.not_mem_nil, or_false]
    exact ⟨fun h => EqvGen.rel _ _ h, same_closed d⟩
  | cons op r ih =>
    intro d a b
    cases op with
    | make x =>
      simp only [DSet.run, unionPairs]
      rw [ih]
      have e : ∀ p q, (d.makeSet x).same p q ↔ d.same p q := by intro p q; simp [DSet.same, DSet.makeSet]
      constructor <;> intro h <;> refine eqvGen_mono ?_ h <;> intro p q hpq <;> rcases hpq with hpq | hpq
      · exact Or.inl ((e p q).mp hpq)
      · exact Or.inr hpq
      · exact Or.inl ((e p q).mpr hpq)
      · exact Or.inr hpq
    | union x y =>
      simp only [DSet.run, unionPairs, List.mem_cons, Prod.mk.injEq]
      rw [ih]
      constructor
      · intro h
        refine eqvGen_flatten ?_ h
        intro p q hpq
        rcases hpq with hpq | hpq
        · refine eqvGen_mono ?_ ((union_same d x y p q).mp hpq)
          intro p' q' h'
          rcases h' with h' | h'
          · exact Or.inl h'
          · exact Or.inr (Or.inl h')
        · exact EqvGen.rel _ _ (Or.inr (Or.inr hpq))
      · intro h
        refine eqvGen_flatten ?_ h
        intro p q hpq
        rcases hpq with hpq | hpq | hpq
        · exact EqvGen.rel _ _ (Or.inl ((union_same d x y p q).mpr (EqvGen.rel _ _ (Or.inl hpq))))
        · exact EqvGen.rel _ _ (Or.inl ((union_same d x y p q).mpr (EqvGen.rel _ _ (Or.inr hpq))))
        · exact EqvGen.rel _ _ (Or.inr hpq)

theorem empty_same (a b : Nat) : DSet.empty.same a b ↔ a = b := Iff.rfl

/-- from the empty structure: same class ⇔ connected by the `union` pairs -/
theorem classes_are_closure (ops : List DOp) (a b : Nat) :
    (DSet.empty.run ops).same a b ↔ EqvGen (fun p q => (p, q) ∈ unionPairs ops) a b := by
  rw [run_same]
  constructor <;> intro h
  · refine eqvGen_flatten ?_ h
    intro p q hpq
    rcases hpq with hpq | hpq
    · rw [empty_same] at hpq; subst hpq; exact EqvGen.refl _
    · exact EqvGen.rel _ _ hpq
  · exact eqvGen_mono (fun p q hpq => Or.inr hpq) h

end NanoVerif
