import NanoVerif.Generated.TrPaint
import NanoVerif.Proofs.TrFixed
import NanoVerif.Proofs.PyRtLemmas
import Mathlib.Tactic.SplitIfs
import Mathlib.Tactic.Tauto
/-
Tie T: `paint.transformed` as translated from the current source equals the hand model the C16 / C01 / C06
theorems (`transformed_denotes`, `transformed_ranges`, …) are about.
-/
set_option linter.unusedSimpArgs false

namespace NanoVerif.TrProofs
open NanoVerif

theorem div_ok {a b : Q} (h : b ≠ 0) : Py.div a b = .ok (a / b) := by simp [Py.div, h]

theorem center_one (d : Q) : Transformed.center 1 d = 0 := by simp [Transformed.center]
theorem center_ne {s : Q} (h : s ≠ 1) (d : Q) : Transformed.center s d = d / (1 - s) := by simp [Transformed.center, h]

theorem zero_eq (x : Q) : ((0 : Q) = x) = (x = 0) := propext eq_comm
theorem one_eq (x : Q) : ((1 : Q) = x) = (x = 1) := propext eq_comm

set_option maxHeartbeats 1000000 in
theorem transformed_eq_11 (t : Aff) (h0 : ¬ t = Aff.id) (ha : t.a = 1) (hd : t.d = 1) : Tr.transformed t = .ok (transformed t) := by
  unfold Tr.transformed
  simp only [int16_safe_eq, f2dot14_safe_eq]
  have na : t.a ≠ 1 → (1 : Q) - t.a ≠ 0 := fun h h' => h (by linarith)
  have nd : t.d ≠ 1 → (1 : Q) - t.d ≠ 0 := fun h h' => h (by linarith)
  simp only [h0, decide_false, transformed, Transformed.k1, Transformed.k2, Transformed.kCenter, Transformed.kCenter2,
    Transformed.k3, bind, Except.bind, pure, Except.pure, if_false, Bool.false_eq_true]
  rw [ha, hd, center_one, center_one]
  simp only [ne_eq, not_true_eq_false, decide_false, if_false, Bool.false_eq_true]
  repeat' split
  all_goals first | rfl | simp_all

set_option maxHeartbeats 1000000 in
theorem transformed_eq_1n (t : Aff) (h0 : ¬ t = Aff.id) (ha : t.a = 1) (hd : ¬ t.d = 1) : Tr.transformed t = .ok (transformed t) := by
  unfold Tr.transformed
  simp only [int16_safe_eq, f2dot14_safe_eq]
  have na : t.a ≠ 1 → (1 : Q) - t.a ≠ 0 := fun h h' => h (by linarith)
  have nd : t.d ≠ 1 → (1 : Q) - t.d ≠ 0 := fun h h' => h (by linarith)
  simp only [h0, decide_false, transformed, Transformed.k1, Transformed.k2, Transformed.kCenter, Transformed.kCenter2,
    Transformed.k3, bind, Except.bind, pure, Except.pure, if_false, Bool.false_eq_true]
  rw [ha, center_one, center_ne hd]
  simp only [Py.div, nd hd, ne_eq, not_true_eq_false, decide_false, if_false, Bool.false_eq_true, hd, not_false_eq_true, decide_true, if_true]
  repeat' split
  all_goals first | rfl | simp_all

set_option maxHeartbeats 1000000 in
theorem transformed_eq_n1 (t : Aff) (h0 : ¬ t = Aff.id) (ha : ¬ t.a = 1) (hd : t.d = 1) : Tr.transformed t = .ok (transformed t) := by
  unfold Tr.transformed
  simp only [int16_safe_eq, f2dot14_safe_eq]
  have na : t.a ≠ 1 → (1 : Q) - t.a ≠ 0 := fun h h' => h (by linarith)
  have nd : t.d ≠ 1 → (1 : Q) - t.d ≠ 0 := fun h h' => h (by linarith)
  simp only [h0, decide_false, transformed, Transformed.k1, Transformed.k2, Transformed.kCenter, Transformed.kCenter2,
    Transformed.k3, bind, Except.bind, pure, Except.pure, if_false, Bool.false_eq_true]
  rw [hd, center_one, center_ne ha]
  simp only [Py.div, na ha, ne_eq, not_true_eq_false, decide_false, if_false, Bool.false_eq_true, ha, not_false_eq_true, decide_true, if_true]
  repeat' split
  all_goals first | rfl | simp_all

set_option maxHeartbeats 1000000 in
theorem transformed_eq_nn_00 (t : Aff) (h0 : ¬ t = Aff.id) (ha : ¬ t.a = 1) (hd : ¬ t.d = 1) (he : t.e = 0) (hf : t.f = 0) :
    Tr.transformed t = .ok (transformed t) := by
  unfold Tr.transformed
  simp only [int16_safe_eq, f2dot14_safe_eq]
  have na : t.a ≠ 1 → (1 : Q) - t.a ≠ 0 := fun h h' => h (by linarith)
  have nd : t.d ≠ 1 → (1 : Q) - t.d ≠ 0 := fun h h' => h (by linarith)
  simp only [h0, decide_false, transformed, Transformed.k1, Transformed.k2, Transformed.kCenter, Transformed.kCenter2,
    Transformed.k3, bind, Except.bind, pure, Except.pure, if_false, Bool.false_eq_true]
  rw [center_ne ha, center_ne hd]
  simp only [Py.div, na ha, nd hd, ne_eq, if_false, ha, hd, not_false_eq_true, decide_true, if_true, zero_eq, one_eq, decide_false,
    he, hf, Bool.and_true, Bool.and_false, Bool.false_eq_true, and_self, and_false, false_and, not_true_eq_false, Prod.mk.injEq,
    decide_not, Bool.not_true, Bool.false_and, Bool.and_self]
  repeat' split
  all_goals first | rfl | simp_all

set_option maxHeartbeats 1000000 in
theorem transformed_eq_nn_0n (t : Aff) (h0 : ¬ t = Aff.id) (ha : ¬ t.a = 1) (hd : ¬ t.d = 1) (he : t.e = 0) (hf : ¬ t.f = 0) :
    Tr.transformed t = .ok (transformed t) := by
  unfold Tr.transformed
  simp only [int16_safe_eq, f2dot14_safe_eq]
  have na : t.a ≠ 1 → (1 : Q) - t.a ≠ 0 := fun h h' => h (by linarith)
  have nd : t.d ≠ 1 → (1 : Q) - t.d ≠ 0 := fun h h' => h (by linarith)
  simp only [h0, decide_false, transformed, Transformed.k1, Transformed.k2, Transformed.kCenter, Transformed.kCenter2,
    Transformed.k3, bind, Except.bind, pure, Except.pure, if_false, Bool.false_eq_true]
  rw [center_ne ha, center_ne hd]
  simp only [Py.div, na ha, nd hd, ne_eq, if_false, ha, hd, not_false_eq_true, decide_true, if_true, zero_eq, one_eq, decide_false,
    he, hf, Bool.and_true, Bool.and_false, Bool.false_eq_true, and_self, and_false, false_and, not_true_eq_false, Prod.mk.injEq,
    decide_not, Bool.not_true, Bool.false_and, Bool.and_self]
  repeat' split
  all_goals first | rfl | simp_all

set_option maxHeartbeats 1000000 in
theorem transformed_eq_nn_n0 (t : Aff) (h0 : ¬ t = Aff.id) (ha : ¬ t.a = 1) (hd : ¬ t.d = 1) (he : ¬ t.e = 0) (hf : t.f = 0) :
    Tr.transformed t = .ok (transformed t) := by
  unfold Tr.transformed
  simp only [int16_safe_eq, f2dot14_safe_eq]
  have na : t.a ≠ 1 → (1 : Q) - t.a ≠ 0 := fun h h' => h (by linarith)
  have nd : t.d ≠ 1 → (1 : Q) - t.d ≠ 0 := fun h h' => h (by linarith)
  simp only [h0, decide_false, transformed, Transformed.k1, Transformed.k2, Transformed.kCenter, Transformed.kCenter2,
    Transformed.k3, bind, Except.bind, pure, Except.pure, if_false, Bool.false_eq_true]
  rw [center_ne ha, center_ne hd]
  simp only [Py.div, na ha, nd hd, ne_eq, if_false, ha, hd, not_false_eq_true, decide_true, if_true, zero_eq, one_eq, decide_false,
    he, hf, Bool.and_true, Bool.and_false, Bool.false_eq_true, and_self, and_false, false_and, not_true_eq_false, Prod.mk.injEq,
    decide_not, Bool.not_true, Bool.false_and, Bool.and_self]
  repeat' split
  all_goals first | rfl | simp_all

set_option maxHeartbeats 1000000 in
theorem transformed_eq_nn_nn (t : Aff) (h0 : ¬ t = Aff.id) (ha : ¬ t.a = 1) (hd : ¬ t.d = 1) (he : ¬ t.e = 0) (hf : ¬ t.f = 0) :
    Tr.transformed t = .ok (transformed t) := by
  unfold Tr.transformed
  simp only [int16_safe_eq, f2dot14_safe_eq]
  have na : t.a ≠ 1 → (1 : Q) - t.a ≠ 0 := fun h h' => h (by linarith)
  have nd : t.d ≠ 1 → (1 : Q) - t.d ≠ 0 := fun h h' => h (by linarith)
  simp only [h0, decide_false, transformed, Transformed.k1, Transformed.k2, Transformed.kCenter, Transformed.kCenter2,
    Transformed.k3, bind, Except.bind, pure, Except.pure, if_false, Bool.false_eq_true]
  rw [center_ne ha, center_ne hd]
  simp only [Py.div, na ha, nd hd, ne_eq, if_false, ha, hd, not_false_eq_true, decide_true, if_true, zero_eq, one_eq, decide_false,
    he, hf, Bool.and_true, Bool.and_false, Bool.false_eq_true, and_self, and_false, false_and, not_true_eq_false, Prod.mk.injEq,
    decide_not, Bool.not_true, Bool.false_and, Bool.and_self]
  repeat' split
  all_goals first | rfl | simp_all

/-- `paint.transformed` as translated from the current paint.py returns, for every affine, exactly the encoding of the
hand model (and never raises: the divisions are guarded by the `sx != 1` / `sy != 1` tests) -/
theorem transformed_eq (t : Aff) : Tr.transformed t = .ok (transformed t) := by
  by_cases h0 : t = Aff.id
  · unfold Tr.transformed
    simp [h0, transformed]; rfl
  · by_cases ha : t.a = 1 <;> by_cases hd : t.d = 1
    · exact transformed_eq_11 t h0 ha hd
    · exact transformed_eq_1n t h0 ha hd
    · exact transformed_eq_n1 t h0 ha hd
    · by_cases he : t.e = 0 <;> by_cases hf : t.f = 0
      · exact transformed_eq_nn_00 t h0 ha hd he hf
      · exact transformed_eq_nn_0n t h0 ha hd he hf
      · exact transformed_eq_nn_n0 t h0 ha hd he hf
      · exact transformed_eq_nn_nn t h0 ha hd he hf

/-- the `gettransform` methods of the transform paints, as translated from the current paint.py, are the COLR meaning of
the encodings (`Enc.gettransform`): the inverse direction of `transformed` that traversal, clip boxes, COLRv0/glyf
components, OT-SVG and colr_to_svg rely on -/
theorem gettransform_eq :
    (∀ t, Tr.gt_transform t = .ok (Enc.transform t).gettransform) ∧
    (∀ dx dy, Tr.gt_translate dx dy = .ok (Enc.translate dx dy).gettransform) ∧
    (∀ sx sy, Tr.gt_scale sx sy = .ok (Enc.scale sx sy).gettransform) ∧
    (∀ sx sy cx cy, Tr.gt_scale_around_center sx sy cx cy = .ok (Enc.scaleAroundCenter sx sy cx cy).gettransform) ∧
    (∀ s, Tr.gt_scale_uniform s = .ok (Enc.scaleUniform s).gettransform) ∧
    (∀ s cx cy, Tr.gt_scale_uniform_around_center s cx cy = .ok (Enc.scaleUniformAroundCenter s cx cy).gettransform) :=
  ⟨fun _ => rfl, fun _ _ => rfl, fun _ _ => rfl, fun _ _ _ _ => rfl, fun _ => rfl, fun _ _ _ => rfl⟩

end NanoVerif.TrProofs
