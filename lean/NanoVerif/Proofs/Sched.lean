import NanoVerif.Model.Sched
/-
Any two valid schedules of the same set of pure steps leave the same contents everywhere.
-/
namespace NanoVerif
open BuildGraph

/-- the environment satisfies node `n`'s equation -/
def FixAt (G : BuildGraph) (E : Nat → Nat) (n : Nat) : Prop := E n = G.f n ((G.deps n).map E)

theorem map_congr_mem {l : List Nat} {E E' : Nat → Nat} (h : ∀ d ∈ l, E d = E' d) : l.map E = l.map E' :=
  List.map_congr_left h

/-- running a valid schedule: nodes already done keep their value, and every node done or scheduled
ends up satisfying its equation -/
theorem run_fix (G : BuildGraph) : ∀ (s done : List Nat) (env : Nat → Nat), G.Valid done s →
    (∀ m ∈ done, ∀ d ∈ G.deps m, d ∈ done) → (∀ m ∈ done, FixAt G env m) →
    (∀ m ∈ done, G.run s env m = env m) ∧ (∀ m, m ∈ done ∨ m ∈ s → FixAt G (G.run s env) m) ∧
    (∀ m, m ∉ done → m ∉ s → G.run s env m = env m)
  | [], done, env, _, _, hfix => by
    refine ⟨fun m _ => rfl, ?_, fun m _ _ => rfl⟩
    intro m hm
    rcases hm with hm | hm
    · exact hfix m hm
    · simp at hm
  | n :: r, done, env, hv, hclosed, hfix => by
    obtain ⟨hdeps, hnew, hv'⟩ := hv
    have hn_not_dep : ∀ m ∈ done, n ∉ G.deps m := fun m hm hmem => hnew (hclosed m hm n hmem)
    have henv' : ∀ m, m ≠ n → G.exec env n m = env m := fun m hm => by simp [BuildGraph.exec, hm]
    have hclosed' : ∀ m ∈ n :: done, ∀ d ∈ G.deps m, d ∈ n :: done := by
      intro m hm d hd
      rcases List.mem_cons.mp hm with rfl | hm
      · exact List.mem_cons_of_mem _ (hdeps d hd)
      · exact List.mem_cons_of_mem _ (hclosed m hm d hd)
    have hfix' : ∀ m ∈ n :: done, FixAt G (G.exec env n) m := by
      intro m hm
      rcases List.mem_cons.mp hm with rfl | hm
      · unfold FixAt
        have : (G.deps m).map (G.exec env m) = (G.deps m).map env :=
          map_congr_mem (fun d hd => henv' d (fun h => hnew (h ▸ hdeps d hd)))
        rw [this]
        simp [BuildGraph.exec]
      · unfold FixAt
        have hmn : m ≠ n := fun h => hnew (h ▸ hm)
        rw [henv' m hmn]
        have : (G.deps m).map (G.exec env n) = (G.deps m).map env :=
          map_congr_mem (fun d hd => henv' d (fun h => hn_not_dep m hm (h ▸ hd)))
        rw [this]
        exact hfix m hm
    obtain ⟨ih1, ih2, ih3⟩ := run_fix G r (n :: done) (G.exec env n) hv' hclosed' hfix'
    refine ⟨?_, ?_, ?_⟩
    · intro m hm
      have hmn : m ≠ n := fun h => hnew (h ▸ hm)
      show G.run r (G.exec env n) m = env m
      rw [ih1 m (List.mem_cons_of_mem _ hm), henv' m hmn]
    · intro m hm
      show FixAt G (G.run r (G.exec env n)) m
      apply ih2
      rcases hm with hm | hm
      · exact Or.inl (List.mem_cons_of_mem _ hm)
      · rcases List.mem_cons.mp hm with rfl | hm
        · exact Or.inl (by simp)
        · exact Or.inr hm
    · intro m hmd hms
      have hmn : m ≠ n := fun h => hms (h ▸ by simp)
      show G.run r (G.exec env n) m = env m
      rw [ih3 m (by simp [hmn, hmd]) (fun h => hms (List.mem_cons_of_mem _ h)), henv' m hmn]

/-- two environments that satisfy the equations of all nodes of a valid schedule, and agree outside it,
agree on it (the equations have a unique solution along the schedule) -/
theorem fix_unique (G : BuildGraph) (E1 E2 : Nat → Nat) : ∀ (s done : List Nat), G.Valid done s →
    (∀ m ∈ done, E1 m = E2 m) → (∀ m ∈ s, FixAt G E1 m ∧ FixAt G E2 m) → ∀ m ∈ s, E1 m = E2 m
  | [], _, _, _, _ => by intro m hm; simp at hm
  | n :: r, done, hv, hdone, hfix => by
    obtain ⟨hdeps, _, hv'⟩ := hv
    have hn : E1 n = E2 n := by
      obtain ⟨h1, h2⟩ := hfix n (by simp)
      unfold FixAt at h1 h2
      rw [h1, h2, map_congr_mem (fun d hd => hdone d (hdeps d hd))]
    have ih := fix_unique G E1 E2 r (n :: done) hv'
      (fun m hm => by rcases List.mem_cons.mp hm with rfl | hm; exact hn; exact hdone m hm)
      (fun m hm => hfix m (List.mem_cons_of_mem _ hm))
    intro m hm
    rcases List.mem_cons.mp hm with rfl | hm
    · exact hn
    · exact ih m hm

/-- **schedule independence**: two valid schedules of the same steps, started from the same directory,
leave the same content in every file -/
theorem run_schedule_independent (G : BuildGraph) (s1 s2 : List Nat) (env : Nat → Nat)
    (h1 : G.Valid [] s1) (h2 : G.Valid [] s2) (hp : ∀ n, n ∈ s1 ↔ n ∈ s2) :
    ∀ m, G.run s1 env m = G.run s2 env m := by
  obtain ⟨_, f1, o1⟩ := run_fix G s1 [] env h1 (by simp) (by simp)
  obtain ⟨_, f2, o2⟩ := run_fix G s2 [] env h2 (by simp) (by simp)
  intro m
  by_cases hm : m ∈ s1
  · apply fix_unique G _ _ s1 [] h1 (by simp) _ m hm
    intro k hk
    exact ⟨f1 k (Or.inr hk), f2 k (Or.inr ((hp k).mp hk))⟩
  · rw [o1 m (by simp) hm, o2 m (by simp) (fun h => hm ((hp m).mpr h))]

end NanoVerif
