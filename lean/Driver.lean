import NanoVerif.Model.Wire
import NanoVerif.Model.Transformed
import NanoVerif.Model.Gradient
import NanoVerif.Model.Palette
import NanoVerif.Model.ViewBox
import NanoVerif.Model.ClipBox
import NanoVerif.Model.PaintTree
import NanoVerif.Model.Bitmap
import NanoVerif.Model.Reorder
import NanoVerif.Model.Naming
import NanoVerif.Model.Csv
import NanoVerif.Model.Valid
import NanoVerif.Model.PaintedLayers
import NanoVerif.Model.Ninja
import NanoVerif.Model.Regroup
import NanoVerif.Model.Inputs
import NanoVerif.Model.Sem
import NanoVerif.Model.Sched
import NanoVerif.Model.ColrSvg
import NanoVerif.Model.Shape
import NanoVerif.Model.ConfigFlow
import NanoVerif.Model.ReuseSeq
import NanoVerif.Model.DisjointSet
import NanoVerif.Model.GlueSvg
import NanoVerif.Model.GradientParse
import NanoVerif.Model.VarModel
import NanoVerif.Model.ConfigValidate
import NanoVerif.Model.ColrColor
/-
Correspondence driver.  One JSON object per input line: {"op": ..., ...}; one JSON object per
output line.  Run: `lake env lean --run Driver.lean < ops.jsonl`.
-/
open Lean NanoVerif NanoVerif.Wire

def encJson : Enc → Json
  | .none => obj [("k", "none")]
  | .translate dx dy => obj [("k", "PaintTranslate"), ("v", jQs [dx, dy])]
  | .scaleUniform s => obj [("k", "PaintScaleUniform"), ("v", jQs [s])]
  | .scale sx sy => obj [("k", "PaintScale"), ("v", jQs [sx, sy])]
  | .scaleUniformAroundCenter s cx cy => obj [("k", "PaintScaleUniformAroundCenter"), ("v", jQs [s, cx, cy])]
  | .scaleAroundCenter sx sy cx cy => obj [("k", "PaintScaleAroundCenter"), ("v", jQs [sx, sy, cx, cy])]
  | .transform t => obj [("k", "PaintTransform"), ("v", jAff t)]

def getEnc (j : Json) : Except String Enc := do
  let k ← getStr (← field j "k")
  if k == "none" then return .none
  let v ← getQs (← field j "v")
  match k, v with
  | "PaintTranslate", [dx, dy] => return .translate dx dy
  | "PaintScaleUniform", [s] => return .scaleUniform s
  | "PaintScale", [sx, sy] => return .scale sx sy
  | "PaintScaleUniformAroundCenter", [s, cx, cy] => return .scaleUniformAroundCenter s cx cy
  | "PaintScaleAroundCenter", [sx, sy, cx, cy] => return .scaleAroundCenter sx sy cx cy
  | "PaintTransform", [a, b, c, d, e, f] => return .transform ⟨a, b, c, d, e, f⟩
  | _, _ => throw s!"bad enc {k}"

def getLin (j : Json) : Except String LinGrad := do
  match ← getQs j with
  | [a, b, c, d, e, f] => return ⟨⟨a, b⟩, ⟨c, d⟩, ⟨e, f⟩⟩
  | _ => throw "lin needs 6"

def getRad (j : Json) : Except String RadGrad := do
  match ← getQs j with
  | [x0, y0, r0, x1, y1, r1] => return ⟨⟨x0, y0⟩, r0, ⟨x1, y1⟩, r1⟩
  | _ => throw "rad needs 6"

def jLin (g : LinGrad) : Json := jQs [g.p0.x, g.p0.y, g.p1.x, g.p1.y, g.p2.x, g.p2.y]
def jRad (g : RadGrad) : Json := jQs [g.c0.x, g.c0.y, g.r0, g.c1.x, g.c1.y, g.r1]

def maxAbsDiff (s t : Aff) : Q :=
  (List.zipWith (fun x y => qabs (x - y)) s.toList t.toList).foldl qmax 0

def dErr : DErr → String
  | .zeroDiv => "ZeroDivisionError"
  | .assertFail => "AssertionError"

/-- residual of the radial colour-line equation at `x` for parameter `t` (0 = on the circle) -/
def radResidual (g : RadGrad) (x : Pt) (t : Q) : Q :=
  (x.x - (g.c0.x + t * (g.c1.x - g.c0.x))) ^ 2 + (x.y - (g.c0.y + t * (g.c1.y - g.c0.y))) ^ 2
    - (g.r0 + t * (g.r1 - g.r0)) ^ 2

def getColor (j : Json) : Except String Color := do
  match ← getArr j with
  | [r, g, b, a, i] =>
      let idx ← match i with
        | .null => pure none
        | v => (some <$> getNat v)
      return ⟨← getInt r, ← getInt g, ← getInt b, ← getQ a, idx⟩
  | _ => throw "color needs 5 fields"

def jColor (c : Color) : Json :=
  Json.arr #[jI c.r, jI c.g, jI c.b, jQ c.a, match c.idx with | some k => Json.str (toString k) | none => Json.null]

def pErr : PErr → String
  | .valueError => "ValueError"
  | .indexError => "IndexError"
  | .assertNotEmpty => "AssertionError"

def vErr : VErr → String
  | .assertFail => "AssertionError"
  | .zeroDiv => "ZeroDivisionError"

def getBox (j : Json) : Except String Box := do
  match ← getQs j with
  | [a, b, c, d] => return ⟨a, b, c, d⟩
  | _ => throw "box needs 4"
def jBox (b : Box) : Json := jQs [b.xMin, b.yMin, b.xMax, b.yMax]

def getLayer (j : Json) : Except String (List Pt × Aff) := do
  let pts ← (← getArr (← field j "pts")).mapM getPt
  let t ← getAff (← field j "t")
  return (pts, t)

partial def getTree (j : Json) : Except String PTree := do
  let k ← getStr (← field j "k")
  if k == "glyph" then return .glyph (← getStr (← field j "name"))
  let t ← getAff (← field j "t")
  let kids ← (← getArr (← field j "kids")).mapM getTree
  return .node t kids

def bErr : BErr → String
  | .assertFail => "AssertionError"
  | .valueError => "ValueError"
  | .zeroDiv => "ZeroDivisionError"

def getBConfig (j : Json) : Except String BConfig := do
  return ⟨← getInt (← field j "upem"), ← getInt (← field j "width"), ← getInt (← field j "ascender"),
          ← getInt (← field j "descender"), ← getInt (← field j "bitmap_resolution")⟩

def strOf (l : List Char) : String := String.ofList l

def getGlyphEl (j : Json) : Except String SvgGlyphEl := do
  return ⟨← getNat (← field j "gid"), ← getStrs (← field j "ids"), ← getStrs (← field j "hrefs")⟩

def getDoc (j : Json) : Except String SvgDoc := do
  return ⟨← getNat (← field j "start"), ← getNat (← field j "end"), ← getStrs (← field j "ids"), ← getStrs (← field j "hrefs"),
          ← (← getArr (← field j "glyphs")).mapM getGlyphEl⟩

def getStrike (j : Json) : Except String (Nat × Nat × List Nat) := do
  return (← getNat (← field j "start"), ← getNat (← field j "end"), ← getNats (← field j "gids"))

def getPair (j : Json) : Except String (Nat × Nat) := do
  match ← getNats j with
  | [a, b] => return (a, b)
  | _ => throw "pair"

def getAbsFont (j : Json) : Except String AbsFont := do
  return {
    numGlyphs := ← getNat (← field j "numGlyphs")
    colrBaseGids := ← getNats (← field j "colrBaseGids")
    colrRefGids := ← getNats (← field j "colrRefGids")
    colrPaletteRefs := ← getNats (← field j "colrPaletteRefs")
    colrLayerRefs := ← (← getArr (← field j "colrLayerRefs")).mapM getPair
    colrNumLayers := ← getNat (← field j "colrNumLayers")
    numPaletteEntries := ← getNat (← field j "numPaletteEntries")
    svgDocs := ← (← getArr (← field j "svgDocs")).mapM getDoc
    cblcStrikes := ← (← getArr (← field j "cblcStrikes")).mapM getStrike
    cmapGids := ← getNats (← field j "cmapGids")
    hmtxLen := ← getNat (← field j "hmtxLen")
    maxpNumGlyphs := ← getNat (← field j "maxpNumGlyphs")
    outlineGlyphs := ← getNat (← field j "outlineGlyphs")
    postFormat3 := ← getBool (← field j "postFormat3")
    isTrueType := ← getBool (← field j "isTrueType")
    keepNames := ← getBool (← field j "keepNames")
    svgNamesRequired := ← getBool (← field j "svgNamesRequired")
    coverages := ← match fieldOpt j "coverages" with
      | some c => do (← getArr c).mapM getNats
      | none => pure [] }

partial def getSvgNode (j : Json) : Except String SvgNode := do
  let k ← getStr (← field j "k")
  if k == "shape" then return .shape (← getNat (← field j "id"))
  let kids ← (← getArr (← field j "kids")).mapM getSvgNode
  return .group (← getQ (← field j "opacity")) (← getBool (← field j "only_opacity")) kids

partial def jPNode : PNode → Json
  | .glyph id => obj [("k", "glyph"), ("id", Json.str (toString id))]
  | .composite a l => obj [("k", "composite"), ("alpha", jQ a), ("layers", Json.arr (l.map jPNode).toArray)]

partial def getSPaint (j : Json) : Except String SPaint := do
  let k ← getStr (← field j "k")
  match k with
  | "solid" => return .fill (.solid (← getNat (← field j "c")) (← getQ (← field j "a")))
  | "lin" => return .fill (.linear (← getLin (← field j "g")) (← getNat (← field j "l")))
  | "glyph" => return .glyph (← getNat (← field j "o")) (← getSPaint (← field j "p"))
  | "transform" => return .transform (← getAff (← field j "m")) (← getSPaint (← field j "p"))
  | _ => .error "bad SPaint"

partial def jSPaint : SPaint → Json
  | .fill (.solid c a) => obj [("k", "solid"), ("c", jI (Int.ofNat c)), ("a", jQ a)]
  | .fill (.linear g l) => obj [("k", "lin"), ("g", jLin g), ("l", jI (Int.ofNat l))]
  | .glyph o p => obj [("k", "glyph"), ("o", jI (Int.ofNat o)), ("p", jSPaint p)]
  | .transform m p => obj [("k", "transform"), ("m", jAff m), ("p", jSPaint p)]

partial def getCP (j : Json) : Except String CP := do
  let k ← getStr (← field j "k")
  match k with
  | "solid" => return .solid (← getNat (← field j "c")) (← getQ (← field j "a"))
  | "lin" =>
      let g ← getQs (← field j "g")
      match g with
      | [x0, y0, x1, y1, x2, y2] => return .lin ⟨⟨x0, y0⟩, ⟨x1, y1⟩, ⟨x2, y2⟩⟩ (← getNat (← field j "l"))
      | _ => .error "lin needs 6 numbers"
  | "glyph" => return .glyph (← getNat (← field j "o")) (← getCP (← field j "child"))
  | "transform" => return .transform (← getAff (← field j "m")) (← getCP (← field j "child"))
  | "layers" => return .layers (← (← getArr (← field j "ps")).mapM getCP)
  | "group" => return .group (← getQ (← field j "alpha")) (← getCP (← field j "child"))
  | "ref" => return .ref (← getCP (← field j "child"))
  | _ => .error "bad CP"

partial def jSV : SV → Json
  | .path o tr f =>
    let jf := match f with
      | .solid c a => obj [("k", "solid"), ("c", jI (Int.ofNat c)), ("a", jQ a)]
      | .lin g l => obj [("k", "lin"), ("g", jQs [g.p0.x, g.p0.y, g.p1.x, g.p1.y, g.p2.x, g.p2.y]), ("l", jI (Int.ofNat l))]
      | .rad g gt l => obj [("k", "rad"), ("g", jQs [g.c0.x, g.c0.y, g.r0, g.c1.x, g.c1.y, g.r1]), ("gt", jAff gt), ("l", jI (Int.ofNat l))]
    obj [("k", "path"), ("o", jI (Int.ofNat o)), ("tr", jAff tr), ("fill", jf)]
  | .g a kids => obj [("k", "g"), ("opacity", jQ a), ("kids", Json.arr (kids.map jSV).toArray)]
  | .gt tr kids => obj [("k", "gt"), ("tr", jAff tr), ("kids", Json.arr (kids.map jSV).toArray)]

/-- one step of a ninja-model history; returns the new directory, the edges that produced a new output, `visible` -/
def ninjaStep (b : BuildDir) (j : Json) : Except String (BuildDir × Bool) := do
  let a ← getArr j
  match a with
  | [k, c] =>
    if (← getStr k) = "edit" then return (edit b (← getNat c), true)
    else if (← getStr k) = "invoke" then return (invoke (← getNats c) b, true)
    else .error "bad ninja op"
  | [k, c, t] =>
    if (← getStr k) = "rename" then return (renameOver b (← getNat c) (← getNat t), true) else .error "bad ninja op"
  | [k, cmds, jj, lv] =>
    if (← getStr k) = "fault" then
      let leave ← match lv with
        | .str "removed" => pure Leave.removed
        | .str "kept" => pure Leave.kept
        | .str "late" => pure Leave.late
        | g => do pure (Leave.garbage (← getNat g))
      return invokeFault (← getNats cmds) (← getNat jj) leave b
    else .error "bad ninja op"
  | _ => .error "bad ninja op"

def jDir (old : BuildDir) (b : BuildDir) (vis : Bool) : Json :=
  let ran := (List.range b.outs.length).filter fun i =>
    match b.outs[i]?.join with
    | some o => decide (old.clock < o.mtime)
    | none => false
  obj [("contents", Json.arr ((contents b.outs).map (fun c => match c with | some n => jI n | none => Json.null)).toArray),
       ("ran", Json.arr (ran.map (fun i => jI (Int.ofNat i))).toArray), ("visible", Json.bool vis)]

def dispatch (op : String) (j : Json) : Except String Json := do
  match op with
  | "shape-lig" =>
      let rules ← (← getArr (← field j "rules")).mapM (fun rj => do
        let a ← getArr rj
        match a with
        | [s, t] => pure (⟨← getNats s, ← getNat t⟩ : LigRule)
        | _ => .error "rule")
      let inputs ← (← getArr (← field j "inputs")).mapM getNats
      return obj [("out", Json.arr (inputs.map (fun i => Json.arr ((shapeLig rules (i.length + 1) i).map (fun g => jI (Int.ofNat g))).toArray)).toArray)]
  | "config-flow" =>
      -- symbolic run of the config path: values are strings, a conversion `c ≠ id` wraps its argument as `c(…)`
      let present ← getStrs (← field j "file")
      let flagged ← getStrs (← field j "flags")
      let nodefault ← getStrs (← field j "nodefault")
      let fields ← getStrs (← field j "fields")
      let conv : String → String → String := fun c v => if c = "id" then v else c ++ "(" ++ v ++ ")"
      let file : KV String := fun k => if present.contains k then some ("F:" ++ k) else none
      let flags : KV String := fun k => if flagged.contains k then some ("G:" ++ k) else none
      let dflt : Cfg String := fun k => if nodefault.contains k then none else some ("D:" ++ k)
      let cfg := loadCfg Gen.CONFIG_LOAD_MAP conv dflt file flags
      let cfgnone ← getStrs (← field j "cfgnone")
      let sym : Cfg String := fun f => if cfgnone.contains f then none else some ("C:" ++ f)
      let written := writeToml Gen.CONFIG_WRITE_MAP conv sym
      let again := loadCfg Gen.CONFIG_LOAD_MAP conv dflt (writeToml Gen.CONFIG_WRITE_MAP conv cfg) (fun _ => none)
      let show_ : Option String → Json := fun o => match o with | some v => Json.str v | none => Json.null
      return obj [("load", Json.arr (fields.map (fun f => show_ (cfg f))).toArray),
                  ("write", Json.arr (fields.map (fun f => show_ (written f))).toArray),
                  ("again", Json.arr (fields.map (fun f => show_ (again f))).toArray)]
  | "regroup" =>
      let old ← getStrs (← field j "old")
      let groups ← (← getArr (← field j "groups")).mapM getStrs
      return obj [("order", jStrs (regroup old groups))]
  | "migrate-seq" =>
      -- the glyph cache over a sequence of PaintGlyphs; `between` is a table over (shape that the donor outline was drawn for, shape)
      let tolv ← getQ (← field j "tol")
      let shapes ← (← getArr (← field j "shapes")).mapM (fun sj => do
        pure (⟨← getNat (← field sj "key"), ← getSPaint (← field sj "child")⟩ : ShapeIn))
      let table ← (← getArr (← field j "between")).mapM (fun r => do
        match (← getArr r) with
        | [a, b, t] => do
            let aff ← match t with
              | .null => pure none
              | x => do pure (some (← getAff x))
            pure ((← getNat a), (← getNat b), aff)
        | _ => .error "between row")
      let step := fun (acc : MState × List Nat × List SPaint) (si : ShapeIn × Nat) =>
        let (st, creator, ps) := acc
        let (s, i) := si
        let between : Nat → ShapeIn → Option Aff := fun d _ =>
          match creator[d]? with
          | some a => (table.find? (fun r => r.1 == a && r.2.1 == i)).bind (·.2.2)
          | none => none
        let (st', p) := migrateStep tolv between st s
        (st', if st'.next > st.next then creator ++ [i] else creator, ps ++ [p])
      let (st, _, ps) := shapes.zipIdx.foldl step (⟨[], 0⟩, [], [])
      return obj [("paints", Json.arr (ps.map jSPaint).toArray), ("next", jI (Int.ofNat st.next))]
  | "disjoint-set" =>
      let ops ← (← getArr (← field j "ops")).mapM (fun r => do
        match (← getArr r) with
        | [k, x] => if (← getStr k) = "make" then pure (DOp.make (← getNat x)) else .error "dset op"
        | [k, x, y] => if (← getStr k) = "union" then pure (DOp.union (← getNat x) (← getNat y)) else .error "dset op"
        | _ => .error "dset op")
      let d := DSet.empty.run ops
      return obj [("classes", Json.arr (d.classes.map (fun c => Json.arr (c.map (fun n => jI (Int.ofNat n))).toArray)).toArray)]
  | "copy-svg-order" =>
      let target ← getStrs (← field j "target")
      let svg ← (← getArr (← field j "svg")).mapM (fun r => do
        match (← getArr r) with
        | [g, n] => pure ((← getNat g), (← getStr n))
        | _ => .error "svg row")
      match copySvgOrder target svg with
      | some o => return obj [("order", jStrs o)]
      | none => return obj [("order", Json.null)]
  | "masters-ok" =>
      let ms ← (← getArr (← field j "masters")).mapM getStrs
      return obj [("ok", Json.bool (mastersOk ms))]
  | "accept-inputs" =>
      let ins ← (← getArr (← field j "inputs")).mapM (fun ij => do
        pure (⟨← getStr (← field ij "name"), ← getNats (← field ij "cps")⟩ : GlyphInput))
      return obj [("accepted", Json.bool (acceptInputs ins [] []).isSome)]
  | "migrate-reuse" =>
      let T ← getAff (← field j "T")
      let child ← getSPaint (← field j "child")
      match migrateReuse T 0 child with
      | some p => return obj [("paint", jSPaint p)]
      | none => return obj [("paint", Json.null)]
  | "try-reuse" =>
      let tolv ← getQ (← field j "tolerance")
      let oracle ← match fieldOpt j "affine" with
        | some (.null) => pure none
        | some a => do pure (some ((0 : Nat), ← getAff a))
        | none => pure none
      match tryReuse tolv oracle with
      | some (_, t) => return obj [("reuse", jAff t)]
      | none => return obj [("reuse", Json.null)]
  | "apply-paint" =>
      let p ← getCP (← field j "paint")
      let U ← getAff (← field j "U")
      match applyPaintFill U Aff.id p with
      | some (.solid c a) => return obj [("fill", obj [("k", "solid"), ("c", jI (Int.ofNat c)), ("a", jQ a)])]
      | some (.lin g l) => return obj [("fill", obj [("k", "lin"), ("g", jQs [g.p0.x, g.p0.y, g.p1.x, g.p1.y, g.p2.x, g.p2.y]), ("l", jI (Int.ofNat l))])]
      | some (.rad _ _ _) => return obj [("fill", Json.null)]
      | none => return obj [("fill", Json.null)]
  | "colr-to-svg" =>
      let p ← getCP (← field j "paint")
      let V ← getAff (← field j "V")
      return obj [("svg", Json.arr ((toSvg V (fun t => (Aff.id, t)) Aff.id p).map jSV).toArray)]
  | "sched-run" =>
      -- deps: list of lists (node i depends on deps[i]); step function: (sum of inputs) * 31 + n * 7 + 1; schedule: list of nodes
      let deps ← (← getArr (← field j "deps")).mapM getNats
      let sched ← getNats (← field j "schedule")
      let G : BuildGraph := { deps := fun n => deps.getD n [], f := fun n vals => vals.foldl (· + ·) 0 * 31 + n * 7 + 1 }
      let env := G.run sched (fun _ => 0)
      return obj [("values", Json.arr ((List.range deps.length).map (fun i => jI (Int.ofNat (env i)))).toArray)]
  | "ninja-history" =>
      let src ← getNats (← field j "source")
      let ops ← getArr (← field j "ops")
      let mut b : BuildDir := emptyDir ⟨src.getD 0 0, src.getD 1 0⟩
      let mut out : Array Json := #[]
      for o in ops do
        let (b', vis) ← ninjaStep b o
        out := out.push (jDir b b' vis)
        b := b'
      return obj [("states", Json.arr out)]
  | "painted-layers" =>
      let body ← (← getArr (← field j "body")).mapM getSvgNode
      match paintedLayers body with
      | .ok l => return obj [("ok", Json.arr (l.map jPNode).toArray)]
      | .error _ => return obj [("err", Json.str "AssertionError")]
  | "valid-font" =>
      let f ← getAbsFont (← field j "font")
      let clauses : List (String × Bool) := [
        ("colr-sorted", strictlyIncreasing f.colrBaseGids),
        ("colr-refs", f.colrBaseGids.all (· < f.numGlyphs) && f.colrRefGids.all (· < f.numGlyphs)),
        ("palette-refs", f.colrPaletteRefs.all (fun i => i == 0xFFFF || i < f.numPaletteEntries)),
        ("layer-refs", f.colrLayerRefs.all (fun p => p.1 + p.2 ≤ f.colrNumLayers)),
        ("svg-ranges", docsSortedDisjoint f.svgDocs && f.svgDocs.all (fun d => d.stop < f.numGlyphs)),
        ("svg-docs", f.svgDocs.all docOk),
        ("cblc-runs", f.cblcStrikes.all (fun s => consecutiveFrom s.1 s.2.2 && decide (s.2.2.length = s.2.1 + 1 - s.1) && decide (s.2.1 < f.numGlyphs)) &&
                      strictlyIncreasing (f.cblcStrikes.flatMap fun s => s.2.2)),
        ("glyph-set", f.cmapGids.all (· < f.numGlyphs) && decide (f.hmtxLen = f.numGlyphs) && decide (f.maxpNumGlyphs = f.numGlyphs) && decide (f.outlineGlyphs = f.numGlyphs)),
        ("post", (!f.isTrueType || f.keepNames || f.svgNamesRequired || f.postFormat3)),
        ("coverage-sorted", f.coverages.all strictlyIncreasing)]
      return obj [("valid", Json.bool (validFont f)), ("failed", jStrs ((clauses.filter (fun c => !c.2)).map (·.1)))]
  | "glyph-name" =>
      let cps ← getNats (← field j "cps")
      let h ← getStr (← field j "hash")
      match glyphName (fun _ => h.toList) cps with
      | some n => return obj [("name", Json.str (strOf n)), ("joined", Json.str (strOf (joinU (cps.map cpName))))]
      | none => return obj [("err", Json.str "IndexError")]
  | "from-filename" =>
      let s ← getStr (← field j "name")
      match fromFilename s.toList with
      | some l => return obj [("cps", Json.arr (l.map fun n => Json.str (toString n)).toArray)]
      | none => return obj [("err", Json.str "ValueError")]
  | "csv-write" =>
      let fields ← getStrs (← field j "row")
      return obj [("line", Json.str (strOf (csvLine (fields.map String.toList)))), ("minimal", Json.str (strOf (writeRow (fields.map String.toList))))]
  | "hex4" =>
      let ns ← getNats (← field j "cps")
      return obj [("hex", jStrs (ns.map fun n => strOf (hex4 n))), ("back", Json.arr ((ns.map fun n => jI (Int.ofNat (parseHex (hex4 n)))).toArray))]
  | "csv-read" =>
      let line ← getStr (← field j "line")
      match readRow true line.toList with
      | some r => return obj [("row", jStrs (r.map strOf))]
      | none => return obj [("err", Json.str "Error")]
  | "sort-by-gid" =>
      let glyphs ← getStrs (← field j "glyphs")
      let order ← getStrs (← field j "order")
      let gid (g : String) : Nat := (order.idxOf? g).getD order.length
      let par : Option (List String) ← match fieldOpt j "par" with
        | none => pure none
        | some p => some <$> getStrs p
      let r := sortByGid gid glyphs par
      return obj [("glyphs", jStrs r.1), ("par", match r.2 with | some l => jStrs l | none => Json.null)]
  | "nudge" =>
      return obj [("r", jI (nudge (← getInt (← field j "lo")) (← getInt (← field j "hi")) (← getInt (← field j "v")) (← getInt (← field j "m"))))]
  | "bitmap" =>
      let c ← getBConfig (← field j "config")
      let w ← getInt (← field j "w")
      let h ← getInt (← field j "h")
      let pp := ppem c h
      let wp := widthInPixels c w h
      let m := match pp with
        | .ok p => bitmapMetrics c w h p
        | .error e => .error e
      let jr (r : Except BErr Int) : Json := match r with | .ok v => jI v | .error e => obj [("err", Json.str (bErr e))]
      let jm : Json := match m with
        | .ok v => Json.arr #[jI v.xOffset, jI v.yOffset, jI v.lineHeight, jI v.lineAscent]
        | .error e => obj [("err", Json.str (bErr e))]
      return obj [("ppem", jr pp), ("width_px", jr wp), ("metrics", jm)]
  | "runs" =>
      let g ← getNats (← field j "gids")
      return obj [("r", Json.arr ((runs g).map fun r => Json.arr (r.map fun n => Json.str (toString n)).toArray).toArray),
                  ("copy", Json.arr ((copyRuns g.length g).map fun r => Json.arr (r.map fun n => Json.str (toString n)).toArray).toArray)]
  | "offsets" =>
      let l ← getNats (← field j "lens")
      let o ← getNat (← field j "off")
      return obj [("r", Json.arr ((offsets o l).map fun (a, b) => Json.arr #[Json.str (toString a), Json.str (toString b)]).toArray)]
  | "tree-glyphs" =>
      let t ← getTree (← field j "tree")
      let l := t.glyphs Aff.id
      return obj [("dfs", Json.arr (l.map fun (n, a) => Json.arr #[Json.str n, jAff a]).toArray)]
  | "var-model" =>
      let locs ← (← getArr (← field j "locs")).mapM getQs
      let masters ← (← getArr (← field j "masters")).mapM getQs
      let evals ← (← getArr (← field j "evals")).mapM getQs
      let user ← match fieldOpt j "user" with
        | some u => do (← getArr u).mapM getQs
        | none => pure locs
      let sups := Var.supports locs
      let S := Var.scalarTable locs
      let jReg := fun (r : Var.Region) => Json.arr #[jQ r.lower, jQ r.peak, jQ r.upper]
      let deltas := masters.map (Var.getDeltas id S)
      let one := match locs with
        | l :: _ => if l.length == 1 then some (Var.supportsGo1 [] (locs.map (fun (x : List Q) => x.getD 0 0))) else none
        | [] => none
      return obj [("supports", Json.arr (sups.map fun s => Json.arr (s.map jReg).toArray).toArray),
                  ("deltas", Json.arr (deltas.map jQs).toArray),
                  ("at_masters", Json.arr (masters.map fun ms => jQs (locs.map (Var.valueAt locs ms))).toArray),
                  ("values", Json.arr (masters.map fun ms => jQs (evals.map (Var.valueAt locs ms))).toArray),
                  ("sorted", Json.arr ((Var.sortLocs user).map jQs).toArray),
                  ("one_axis", match one with | some l => Json.arr (l.map jReg).toArray | none => Json.null)]
  | "normalize-value" =>
      let v ← getQ (← field j "v")
      let t ← getQs (← field j "triple")
      match t with
      | [lo, d, hi] => match Var.normalizeValue v lo d hi with
          | some r => return obj [("r", jQ r)]
          | none => return obj [("err", Json.str "ValueError")]
      | _ => throw "triple"
  | "default-master" =>
      let getPair := fun (j : Json) => do
        match (← getArr j) with
        | [t, v] => pure ((← getStr t), (← getQ v))
        | _ => throw "pair"
      let axes ← (← getArr (← field j "axes")).mapM getPair
      let masters ← (← getArr (← field j "masters")).mapM (fun m => do (← getArr m).mapM getPair)
      match Cfg.defaultMaster axes masters 0 with
      | .ok (some i) => return obj [("r", Json.str (toString i))]
      | .ok none => return obj [("r", Json.str "none")]
      | .error _ => return obj [("r", Json.str "err")]
  | "colr-color" =>
      let pal ← (← getArr (← field j "palette")).mapM (fun e => do
        match (← getNats e) with
        | [r, g, b, a] => pure (r, g, b, a)
        | _ => throw "rgba")
      let n ← getNat (← field j "palettes")
      let idx ← getNat (← field j "idx")
      let alpha ← getQ (← field j "alpha")
      match ColrColor.colorOf pal n idx alpha with
      | .error _ => return obj [("r", Json.str "IndexError")]
      | .ok c =>
        if c.slot == some ColrColor.FOREGROUND then return obj [("r", Json.str "current"), ("alpha", jQ c.alpha)]
        else return obj [("r", Json.arr #[jI c.r, jI c.g, jI c.b]), ("alpha", jQ c.alpha),
                         ("slot", match c.slot with | some s => jI s | none => Json.null)]
  | "validate-config" =>
      let names ← getStrs (← field j "names")
      let vals ← getInts (← field j "vals")
      let desc ← getInt (← field j "descender")
      let clipq ← match fieldOpt j "clipq" with
        | some .null => pure none
        | some q => do pure (some (← getInt q))
        | none => pure none
      let fmt ← getStr (← field j "fmt")
      let n ← getNat (← field j "masters")
      let preds := obj [("has_bitmaps", Json.bool (Cfg.hasBitmaps fmt)), ("has_picosvgs", Json.bool (Cfg.hasPicosvgs fmt)),
                        ("has_untouchedsvgs", Json.bool (Cfg.hasUntouchedsvgs fmt)), ("has_svgs", Json.bool (Cfg.hasSvgs fmt)),
                        ("is_ot_svg", Json.bool (Cfg.isOtSvg fmt))]
      let r := match Cfg.validate ⟨names.zip vals, desc, clipq, fmt, n⟩ with
        | .ok _ => "ok"
        | .error (.negative f) => "negative:" ++ f
        | .error .descender => "descender"
        | .error .clipq => "clipq"
        | .error .sanity => "sanity"
        | .error .vfBitmap => "vf-bitmap"
        | .error .vfOtSvg => "vf-otsvg"
      return obj [("r", Json.str r), ("preds", preds)]
  | "parse-linear" =>
      let vb ← getRect (← field j "vb")
      let asc ← getQ (← field j "asc")
      let desc ← getQ (← field j "desc")
      let w ← getQ (← field j "width")
      let u ← getAff (← field j "user")
      let bbox ← match fieldOpt j "bbox" with
        | some .null => pure none
        | some b => do pure (some (← getRect b))
        | none => pure none
      let gt ← match fieldOpt j "gt" with
        | some .null => pure none
        | some g => do pure (some (← getAff g))
        | none => pure none
      let p0 ← getPt (← field j "p0")
      let p1 ← getPt (← field j "p1")
      match getGradientTransform vb asc desc w u bbox gt with
      | .ok t => return obj [("t", jAff t), ("g", jLin (parseLinear p0 p1 t))]
      | .error e => return obj [("err", Json.str (vErr e))]
  | "viewbox-space" =>
      let vb ← getRect (← field j "vb")
      let asc ← getQ (← field j "asc")
      let desc ← getQ (← field j "desc")
      let w ← getQ (← field j "width")
      let u ← getAff (← field j "user")
      let which ← getStr (← field j "which")
      let r := if which == "font" then mapViewboxToFontSpace vb asc desc w u else mapViewboxToOtsvgSpace vb asc desc w u
      match r with
      | .ok t => return obj [("t", jAff t)]
      | .error e => return obj [("err", Json.str (vErr e))]
  | "advance" =>
      let vb ← getRect (← field j "vb")
      match advanceWidth vb (← getInt (← field j "asc")) (← getInt (← field j "desc")) (← getInt (← field j "width")) with
      | .ok r => return obj [("r", jI r)]
      | .error e => return obj [("err", Json.str (vErr e))]
  | "quantize" =>
      let b ← getBox (← field j "box")
      let f ← getNat (← field j "factor")
      return obj [("r", jBox (quantizeRect b f))]
  | "clip-bounds" =>
      let layers ← (← getArr (← field j "layers")).mapM getLayer
      let f ← getNat (← field j "factor")
      match clipBounds layers f with
      | none => return obj [("r", Json.null)]
      | some b => return obj [("r", jBox b)]
  | "palette" =>
      let cs ← (← getArr (← field j "colors")).mapM getColor
      match uniqSortCpal cs with
      | .ok r => return obj [("ok", Json.arr (r.map jColor).toArray)]
      | .error e => return obj [("err", Json.str (pErr e))]
  | "check-palette" =>
      let cs ← (← getArr (← field j "colors")).mapM getColor
      let pal ← (← getArr (← field j "pal")).mapM getColor
      return obj [("ok", Json.bool (checkPalette cs pal)),
                  ("conflict", Json.bool (hasConflict (allColors cs)))]
  | "check16" =>
      let t ← getAff (← field j "t")
      let e ← getEnc (← field j "enc")
      return obj [("denotes", Json.bool (e.denotesB tol t)), ("inrange", Json.bool e.inRangeB),
                  ("maxdiff", jQ (maxAbsDiff e.gettransform t)), ("gt", jAff e.gettransform)]
  | "decompose" =>
      let t ← getAff (← field j "t")
      let sx ← getQ (← field j "sx")
      let sy ← getQ (← field j "sy")
      match decomposeUniform sx sy t with
      | .error e => return obj [("err", Json.str (dErr e))]
      | .ok (u, r) => return obj [("u", jAff u), ("r", jAff r), ("compose", jAff (Aff.composeLtr [u, r]))]
  | "compose-ltr" =>
      let l ← (← getArr (← field j "l")).mapM getAff
      return obj [("r", jAff (Aff.composeLtr l))]
  | "lin-apply" =>
      let g ← getLin (← field j "g")
      let t ← getAff (← field j "t")
      let g' := g.applyTransform t
      return obj [("g", jLin g'), ("ok", Json.bool g'.checkOverflows)]
  | "lin-param" =>
      let g ← getLin (← field j "g")
      let x ← getPt (← field j "x")
      if cross g.p0 g.p1 g.p2 = 0 then return obj [("degenerate", Json.bool true)]
      return obj [("t", jQ (linParam g x))]
  | "rad-apply" =>
      let g ← getRad (← field j "g")
      let t ← getAff (← field j "t")
      let sx ← getQ (← field j "sx")
      let sy ← getQ (← field j "sy")
      match g.applyTransform sx sy t true with
      | .error e => return obj [("err", Json.str (dErr e))]
      | .ok none => return obj [("err", Json.str "OverflowError")]
      | .ok (some (e, g')) => return obj [("enc", encJson e), ("g", jRad g')]
  | "rad-residual" =>
      let g ← getRad (← field j "g")
      let x ← getPt (← field j "x")
      let t ← getQ (← field j "t")
      return obj [("res", jQ (radResidual g x t)), ("radius", jQ (g.r0 + t * (g.r1 - g.r0)))]
  | "aff-app" =>
      let t ← getAff (← field j "t")
      let x ← getPt (← field j "x")
      return obj [("p", jPt (t.app x))]
  | "aff-inverse" =>
      let t ← getAff (← field j "t")
      return obj [("r", jAff (t.inverseEps Gen.FLOAT_EPSILON))]
  | "transformed" =>
      let t ← getAff (← field j "t")
      let e := transformed t
      return obj [("enc", encJson e), ("gt", jAff e.gettransform)]
  | _ => throw s!"unknown op {op}"

partial def loop (h : IO.FS.Stream) (out : IO.FS.Stream) : IO Unit := do
  let line ← h.getLine
  if line.isEmpty then return ()
  let res : Json :=
    match Json.parse line with
    | .error e => obj [("error", Json.str s!"parse: {e}")]
    | .ok j =>
      match (do let op ← getStr (← field j "op"); dispatch op j : Except String Json) with
      | .ok r => r
      | .error e => obj [("error", Json.str e)]
  out.putStrLn res.compress
  loop h out

def main : IO Unit := do
  let stdin ← IO.getStdin
  let stdout ← IO.getStdout
  loop stdin stdout
