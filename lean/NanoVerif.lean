import NanoVerif.Model.Num
import NanoVerif.Model.Affine
import NanoVerif.Model.Fixed
import NanoVerif.Model.Transformed
import NanoVerif.Model.Decompose
import NanoVerif.Model.Gradient
import NanoVerif.Model.Wire
import NanoVerif.Model.Palette
