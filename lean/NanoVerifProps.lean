import NanoVerif.Props.C16
import NanoVerif.Props.C15
import NanoVerif.Props.C01
import NanoVerif.Props.C05
import NanoVerif.Props.C06
import NanoVerif.Props.C03
import NanoVerif.Props.C19
import NanoVerif.Props.C14
