import NanoVerif.Props.C16
