import NanoVerif.Props.C16
import NanoVerif.Props.C15
